"""C06 — BIP32 derivation, extended keys, Base58Check, addresses, account address chains, mnemonic.

[DIFF] the real lbry.wallet.bip32 / lbry.crypto.base58 / Ledger address helpers / Account +
HierarchicalDeterministic / Mnemonic are run on generated inputs and compared, value by value,
with vlib.ref.bip32 (pure-integer secp256k1 + BIP32 + Base58Check written from the public
texts; verified against the official BIP32 vectors 1-3 in shard_setup) and with
hashlib.pbkdf2_hmac.  Oracle clauses (DESIGN §4 C06):

K1 every node of a path: private key, public key, chain code, fingerprint, parent fingerprint,
   depth, index, full xprv/xpub strings (and the P2PKH address, K5) equal the reference.
K2 non-hardened i: priv.child(i).public_key == priv.public_key.child(i) == reference CKDpub;
   hardened public derivation is refused; public-only chains from a decoded xpub.
K3 from_extended_key_string(extended_key_string(k)) keeps type, key bytes, chain code, depth,
   index; string equality after re-encoding is required at depth 0 only (deeper keys lose the
   parent link in the decoder by design: logged); corrupted strings whose Base58Check the
   reference rejects must be rejected.
K4 Base58Check: payloads of 0-100 bytes incl. leading zeros round-trip and encode as the
   reference does; for corrupted strings accept/reject equals the reference's verdict.
K5 addresses == prefix || hash160 || checksum by reference; corrupted ones and foreign prefixes
   are rejected by is_pubkey_address (raise or False).
K6 account from a mnemonic: receiving/change addresses ordered by n equal the reference
   derivation (seed = PBKDF2-HMAC-SHA512(mnemonic, 'lbryum', 2048)) for the configured gaps,
   identical on a second fresh database, still a hole-free reference prefix after an address
   was used; private key handed out for (chain, n) controls that address.  The same holds for every
   account when several accounts (other mnemonics, other gaps, single-address, watch-only) share ONE
   ledger database: each chain stays the reference prefix of its own account after every generation /
   payment / top-up of any account, and the ledger's key lookup by address finds the controlling key.
   A passphrase in another Unicode-equivalent spelling (NFC/NFD/NFKC/NFKD) stretches to the same seed.
   The gap settings are part of what the wallet SAVES: after every step of a history of account_set / payments to
   generated addresses / wallet export + sync apply (older, equally old and newer copies, clear text and packed) /
   start-up (Ledger.start's save_max_gap), the wallet text written by Wallet.save(), loaded on a fresh database and
   run through the usual discovery loop, regenerates hole-free reference chains that contain EVERY address the
   harness paid to - whenever the last explicit settings (account_set here or on the newer device) sufficed for
   those payments or a start-up came since (otherwise logged).  Which addresses were paid to, which copy is older
   and which gaps suffice is the harness' own bookkeeping.
K7 mnemonic_decode(mnemonic_encode(i)) == i for i in 1..2^264, dense around 2048^k.
"""
import asyncio
import hashlib
import random

from vlib import boot
from vlib.ref import bip32 as R

ID = 'C06'
LEVEL = 'exploration'
RULE = ('paths: seeds of 16..64 bytes (length classes 16,17,31,32,33,48,63,64,random; random/all-zero/all-ff content; '
        'seeds searched so that the master or a child private key starts with a zero byte) x paths of depth 1..6 over '
        'indices {0,1,2^31-1,2^31,2^31+1,2^32-1,random normal,random hardened}, each boundary index placed first/middle/'
        'last, on main-net, test-net and regtest prefixes, plus BIP32 vectors 1-3; Base58Check: payloads 0..100 bytes with '
        '0/1/2/5/all leading zero bytes and substitutions/deletions/insertions/swaps/non-alphabet characters; addresses: '
        'random/zero/ff hash160 on three networks and their corruptions; accounts: random 12..13-word English mnemonics and '
        'arbitrary strings x gaps {1,3,20}x{1,3,6,20}, default gaps and single-address; 2-3 such accounts (also watch-only) '
        'in one ledger database x generation order x payments to any chain of any account; saved gap settings: 8 scripted and '
        'seeded random histories of 5-9 steps over {account_set raising/lowering either gap, payment to a generated address '
        '(last / gap-th last / random), wallet export (JSON or packed), sync apply of an exported copy as it is or after a '
        'second device changed its gaps earlier / later than the local change, start-up} x gaps from {1..8} or {20..45}x{6..30}, '
        'each step followed by a restore of the saved wallet text on a fresh database; passphrases with accents / '
        'compatibility characters in the four Unicode normal forms; mnemonic: every i in dense '
        'windows around 2048^k (k<=24) and random i up to 2^264.  distinct = distinct (seed, path prefix) node / payload / '
        'address / (mnemonic, gaps) / integer; non-trivial = every case (each is an independent input of a deterministic '
        'function); K1 counts one evaluation per derived node')
ASSUMPTIONS = [
    'reference vlib.ref.bip32 is correct (checked at start of every shard against BIP32 test vectors 1-3, vector-5 '
    'invalid keys, ecdsa-published multiples of G, Base58 samples)',
    'hashlib (sha256, sha512, ripemd160, pbkdf2_hmac) and hmac from the standard library are trusted by both sides',
    'the account seed is PBKDF2-HMAC-SHA512(normalised mnemonic, salt "lbryum", 2048 rounds, 64 bytes) - the statement '
    'fixes no salt; only already-normalised mnemonics (lower-case ASCII, single blanks) are judged',
    'unicodedata.normalize (standard library) is trusted to produce canonically / compatibility-equivalent spellings of '
    'a passphrase; only their agreement with each other is judged (no normal form is prescribed); upper-case and '
    'white-space variants of a passphrase are logged, not judged',
    'saved gap settings: a restored wallet discovers its addresses as Ledger.subscribe_account does (ensure_address_gap, '
    'histories of the new addresses arrive, ensure_address_gap again until nothing new is generated); a gap suffices for a '
    'set of paid indices when every run of never-paid indices in front of a paid one is shorter than the gap; a sync copy '
    'is newer only when its modified_on is greater; gaps lowered by the user or by a newer copy below what the payments '
    'need are the user\'s choice (logged, judged again after the next start-up)',
    'network constants written down from the LBRY chain parameters: main 0x55/0x7a xpub/xprv, test+regtest 111/196 tpub/tprv',
    'a child with parse256(IL) >= n or k_i = 0 (probability 2^-127) is skipped, never judged',
    'rejection = any exception or a False verdict; exception types other than Base58Error/ValueError are logged',
    'parent-fingerprint loss when decoding a depth>0 extended key is by design (logged); raw Base58.decode of an all-"1" '
    'string and address_to_hash160 (no checksum test, validation is is_pubkey_address) are logged, not judged',
]
REQUIRED_HITS = [
    'K1.node_checked', 'K1.vector_node_checked', 'K1.idx.0', 'K1.idx.1', 'K1.idx.2^31-1', 'K1.idx.2^31', 'K1.idx.2^31+1',
    'K1.idx.2^32-1', 'K1.idx.normal-random', 'K1.idx.hardened-random', 'K1.depth.6', 'K1.class.priv_leading_zero',
    'K1.net.main', 'K1.net.test', 'K1.seedlen.16', 'K1.seedlen.64',
    'K2.pub_eq_checked', 'K2.hardened_refused_checked', 'K2.pubchain_checked',
    'K3.roundtrip_checked', 'K3.depth0_string_checked', 'K3.corrupt_rejected_checked', 'K3.decoded_xprv_child_checked',
    'K4.roundtrip_checked', 'K4.class.leading-zeros', 'K4.class.all-zero', 'K4.class.empty', 'K4.corrupt_reject_checked',
    'K4.mut.prepend-1', 'K4.mut.substitute', 'K4.mut.delete',
    'K5.addr_checked', 'K5.invalid_checked', 'K5.foreign_prefix_checked',
    'K6.account_checked', 'K6.second_db_checked', 'K6.gap.1', 'K6.gap.3', 'K6.gap.20', 'K6.after_use_checked',
    'K6.private_key_checked', 'K6.seed_stretch_checked', 'K6.respelled_mnemonic_checked', 'K6.fixture_checked',
    'K6.shared_ledger_checked', 'K6.shared.step_checked', 'K6.shared.after_use_checked', 'K6.shared.key_lookup_checked',
    'K6.passphrase_equivalent_checked', 'K6.password_account_root_checked',
    'K6.saved.history_checked', 'K6.saved.restore_checked', 'K6.saved.funded_regenerated_checked',
    'K6.saved.after.sync-apply-of-older-copy', 'K6.saved.after.sync-apply-of-newer-copy', 'K6.saved.after.start-up',
    'K6.saved.after.account-set', 'K6.saved.after.payment', 'K6.saved.older_copy_too_narrow_checked',
    'K6.saved.startup_beyond_default_gap.receiving', 'K6.saved.startup_beyond_default_gap.change',
    'K7.roundtrip_checked', 'K7.boundary_checked',
]

H = 2 ** 31
BOUNDARY = [0, 1, H - 1, H, H + 1, 2 ** 32 - 1]
IDX_NAME = {0: '0', 1: '1', H - 1: '2^31-1', H: '2^31', H + 1: '2^31+1', 2 ** 32 - 1: '2^32-1'}
NETS = {   # name -> (ledger class name, xprv version, xpub version, pubkey prefix, script prefix)
    'main': ('Ledger', bytes.fromhex('0488ade4'), bytes.fromhex('0488b21e'), b'\x55', b'\x7a'),
    'test': ('TestNetLedger', bytes.fromhex('04358394'), bytes.fromhex('043587cf'), bytes((111,)), bytes((196,))),
    'regtest': ('RegTestLedger', bytes.fromhex('04358394'), bytes.fromhex('043587cf'), bytes((111,)), bytes((196,))),
}
SEED_LENS = [16, 17, 31, 32, 33, 48, 63, 64]
FIXTURE_MNEMONIC = 'carbon smart garage balance margin twelve chest sword toast envelope bottom stomach absent'
FIXTURE_FIRST_RECEIVING = 'bCqJrLHdoiRqEZ1whFZ3WHNb33bP34SuGx'      # /repo/tests/unit/wallet/test_account.py
FIXTURE_XPRV = ('xprv9s21ZrQH143K42ovpZygnjfHdAqSd9jo7zceDfPRogM7bkkoNVv7DRNLEoB8'
                'HoirMgH969NrgL8jNzLEegqFzPRWM37GXd4uE8uuRkx4LAe')


def plan(tier):
    return {'shards': 16, 'budget_s': 36 if tier == 'quick' else 700}


def idx_class(i):
    return IDX_NAME.get(i) or ('hardened-random' if i >= H else 'normal-random')


def hcls(i):
    return 'hardened' if i >= H else 'normal'


# ------------------------------------------------------------------------------ generation
def rand_index(r):
    k = r.randrange(10)
    if k < 4:
        return r.choice(BOUNDARY)
    if k < 6:
        return r.randrange(2, H - 1)
    if k < 8:
        return H + r.randrange(2, H - 1)
    if k == 8:
        return r.choice([2, 3, 255, 256, 65535, 65536, 2 ** 24, 0x01020304, 0x7f000000, 1000000000])
    return H + r.choice([2, 44, 140, 255, 256, 65536, 0x01020304])


def rand_seed(r, n=None):
    n = n or r.choice(SEED_LENS + [r.randrange(16, 65)])
    k = r.randrange(12)
    if k == 0:
        return bytes(n)
    if k == 1:
        return b'\xff' * n
    if k == 2:
        return bytes(n - 1) + b'\x01'
    return bytes(r.getrandbits(8) for _ in range(n))


def gen_cases(rng, tier, shard, nshards):
    quick = tier == 'quick'
    fixed = []
    fixed.append({'fam': 'vectors'})
    fixed.append({'fam': 'fixture_account'})
    fr = random.Random(0xC06)
    # every boundary index at first / middle / last position, in paths of depth 6 and 3, all networks
    for b in BOUNDARY:
        for pos in ('first', 'middle', 'last'):
            for depth in (6, 3):
                path = [rand_index(fr) for _ in range(depth)]
                path[{'first': 0, 'middle': depth // 2, 'last': depth - 1}[pos]] = b
                fixed.append({'fam': 'path', 'seed': rand_seed(fr).hex(), 'path': path,
                              'net': fr.choice(['main', 'main', 'test', 'regtest'])})
    for n in SEED_LENS:
        fixed.append({'fam': 'path', 'seed': rand_seed(fr, n).hex(), 'path': [H, 0, H - 1], 'net': 'main'})
    fixed.append({'fam': 'path', 'seed': bytes(16).hex(), 'path': [0, H, 1, H + 1, 2 ** 32 - 1, H - 1], 'net': 'main'})
    fixed.append({'fam': 'path', 'seed': (b'\xff' * 64).hex(), 'path': [2 ** 32 - 1] * 6, 'net': 'test'})
    fixed.append({'fam': 'path', 'seed': bytes(range(16)).hex(), 'path': [H - 1] * 6, 'net': 'main'})
    fixed.append({'fam': 'path', 'seed': bytes(range(32)).hex(), 'path': [0] * 6, 'net': 'regtest'})
    for j in range(8):
        fixed.append({'fam': 'lz', 'sub': j, 'where': 'master' if j % 2 == 0 else 'child', 'hard': j % 4 >= 2})
    for rg in (1, 3, 20):
        for cg in (1, 3, 6, 20):
            fixed.append({'fam': 'acct', 'mseed': fr.getrandbits(48), 'gaps': [rg, cg], 'kind': 'words',
                          'net': 'main', 'use': fr.randrange(rg)})
    fixed.append({'fam': 'acct', 'mseed': fr.getrandbits(48), 'gaps': None, 'kind': 'words', 'net': 'main', 'use': 7})
    fixed.append({'fam': 'acct', 'mseed': fr.getrandbits(48), 'gaps': None, 'kind': 'single', 'net': 'main', 'use': 0})
    fixed.append({'fam': 'acct', 'mseed': fr.getrandbits(48), 'gaps': [3, 3], 'kind': 'string', 'net': 'regtest', 'use': 2})
    # several accounts in one ledger database: [kind, receiving gap, change gap] (gap None = documented defaults)
    for accts in ([['words', 20, 6], ['words', 3, 3]],
                  [['words', 1, 1], ['words', None, None], ['string', 3, 20]],
                  [['words', None, None], ['single', None, None], ['words', 3, 1]],
                  [['xpub', 3, 6], ['words', 3, 6]]):
        fixed.append({'fam': 'shared', 'mseed': fr.getrandbits(48), 'accts': accts, 'net': 'main', 'uses': 2})
    fixed.append({'fam': 'b58fixed'})
    fixed.append({'fam': 'addrfixed'})
    fixed.append({'fam': 'mnem_fixed'})
    # mnemonic dense windows around 2048^k
    half = 40 if quick else 1500
    for k in range(0, 25):
        fixed.append({'fam': 'mnem_win', 'k': k, 'half': half})
    step = 1000
    top = 10_000 if quick else 300_000
    for lo in range(1, top, step):
        fixed.append({'fam': 'mnem_range', 'lo': lo, 'hi': lo + step - 1})
    for name in sorted(SAVED_SCRIPTS):      # gap settings the wallet saves (appended last: keeps the draws of `fr` above)
        fixed.append({'fam': 'saved', 'script': name, 'mseed': fr.getrandbits(48), 'kind': 'words',
                      'net': 'regtest' if name.endswith('packed') else 'main'})
    for i, c in enumerate(fixed):
        if i % nshards == shard:
            yield c
    # seeded random part, interleaved so that every family gets budget
    rounds = 8 if quick else 160
    for rnd in range(rounds):
        for _ in range(3):
            depth = rng.choice([1, 2, 3, 4, 5, 6, 6])
            yield {'fam': 'path', 'seed': rand_seed(rng).hex(), 'path': [rand_index(rng) for _ in range(depth)],
                   'net': rng.choice(['main', 'main', 'main', 'test', 'regtest'])}
        yield {'fam': 'b58', 'seed': rng.getrandbits(48), 'count': 250}
        yield {'fam': 'addr', 'seed': rng.getrandbits(48), 'count': 60}
        yield {'fam': 'mnem_rand', 'seed': rng.getrandbits(48), 'count': 400}
        rg, cg = rng.choice([1, 3, 20]), rng.choice([1, 3, 6, 20])
        yield {'fam': 'acct', 'mseed': rng.getrandbits(48), 'gaps': rng.choice([[rg, cg], [rg, cg], None]),
               'kind': rng.choice(['words', 'words', 'words', 'string', 'single']),
               'net': rng.choice(['main', 'main', 'regtest']), 'use': rng.randrange(rg)}
        yield {'fam': 'stretch', 'seed': rng.getrandbits(48), 'count': 6}
        if rnd % 4 == 0:
            gap = lambda: rng.choice([1, 1, 2, 3, 3, 6, 6, 20])  # noqa: E731
            yield {'fam': 'shared', 'mseed': rng.getrandbits(48), 'net': rng.choice(['main', 'main', 'regtest']),
                   'accts': [[rng.choice(['words', 'words', 'words', 'string', 'single', 'xpub'])] +
                             rng.choice([[gap(), gap()]] * 5 + [[None, None]])
                             for _ in range(rng.choice([2, 2, 2, 3]))],
                   'uses': rng.randrange(1, 4)}
        if rnd % 4 == 2:
            yield {'fam': 'saved', 'script': 'random', 'mseed': rng.getrandbits(48), 'kind': rng.choice(['words', 'words', 'string']),
                   'net': rng.choice(['main', 'main', 'regtest']), 'palette': rng.choice(['small', 'small', 'large']),
                   'steps': rng.randrange(5, 10)}


# ------------------------------------------------------------------------------ helpers
class Lbry:
    """the real modules of the tree under test (looked up once per process)"""
    _inst = None

    def __init__(self):
        boot.import_lbry()
        from lbry.wallet import bip32, ledger, mnemonic
        from lbry.crypto import base58
        import lbry.wallet as w
        self.bip32, self.ledger, self.mnemonic, self.base58, self.w = bip32, ledger, mnemonic, base58, w
        self.PrivateKey, self.PublicKey = bip32.PrivateKey, bip32.PublicKey
        self.Base58, self.Base58Error = base58.Base58, base58.Base58Error

    def ledger_class(self, net):
        return getattr(self.ledger, NETS[net][0])

    @classmethod
    def get(cls):
        if cls._inst is None:
            cls._inst = cls()
        return cls._inst


def ref_address(net, pubkey_bytes):
    return R.b58check_encode(NETS[net][3] + R.hash160(pubkey_bytes))


def corruptions(r, s, count):
    """[(kind, mutated string)] — never equal to s."""
    out = []
    A = R.ALPHABET
    for _ in range(count):
        k = r.randrange(11)
        if not s:
            out.append(('append-char', r.choice(A)))
            continue
        p = r.randrange(len(s))
        if k <= 3:
            c = r.choice(A)
            if c != s[p]:
                out.append(('substitute', s[:p] + c + s[p + 1:]))
        elif k == 4:
            out.append(('delete', s[:p] + s[p + 1:]))
        elif k == 5:
            out.append(('insert', s[:p] + r.choice(A) + s[p:]))
        elif k == 6 and p + 1 < len(s) and s[p] != s[p + 1]:
            out.append(('swap-adjacent', s[:p] + s[p + 1] + s[p] + s[p + 2:]))
        elif k == 7:
            out.append(('prepend-1', '1' * r.choice([1, 1, 2, 4]) + s))
        elif k == 8:
            c = r.choice(['0', 'O', 'I', 'l', ' ', '\n', 'é', '+', '/', '\x00'])
            out.append(('non-alphabet-char', s[:p] + c + s[p + 1:]))
        elif k == 9:
            out.append(('append-char', s + r.choice(A)))
        elif k == 10:
            if s[p].swapcase() != s[p] and s[p].swapcase() in A:
                out.append(('case-flip', s[:p] + s[p].swapcase() + s[p + 1:]))
            elif s.startswith('1'):
                out.append(('strip-leading-1', s[1:]))
            else:
                out.append(('truncate-tail', s[:-r.randrange(1, min(6, len(s)) + 1)]))
    return [(k, m) for k, m in out if m != s]


# ------------------------------------------------------------------------------ K1/K3/K5 at one node
def observe_node(key):
    """what the real objects expose for one private node (all accessor calls are lbry code)."""
    pub = key.public_key
    return {
        'privkey': bytes(key.private_key_bytes), 'secret_exponent': key.secret_exponent(),
        'chain_code': bytes(key.chain_code), 'pub.chain_code': bytes(pub.chain_code),
        'pubkey': bytes(pub.pubkey_bytes), 'ec_point': tuple(pub.ec_point()),
        'index': key.n, 'pub.index': pub.n, 'depth': key.depth, 'pub.depth': pub.depth,
        'identifier': bytes(key.identifier()), 'pub.identifier': bytes(pub.identifier()),
        'fingerprint': bytes(key.fingerprint()), 'pub.fingerprint': bytes(pub.fingerprint()),
        'parent_fingerprint': bytes(key.parent_fingerprint()), 'pub.parent_fingerprint': bytes(pub.parent_fingerprint()),
        'xprv_raw': bytes(key.extended_key()), 'xpub_raw': bytes(pub.extended_key()),
        'xprv': key.extended_key_string(), 'xpub': pub.extended_key_string(),
        'address': key.address, 'pub.address': pub.address,
    }


def expect_node(ref, net):
    _, vprv, vpub, _, _ = NETS[net]
    return {
        'privkey': ref.priv_bytes, 'secret_exponent': ref.k,
        'chain_code': ref.c, 'pub.chain_code': ref.c,
        'pubkey': ref.pub_bytes, 'ec_point': ref.K,
        'index': ref.index, 'pub.index': ref.index, 'depth': ref.depth, 'pub.depth': ref.depth,
        'identifier': ref.identifier, 'pub.identifier': ref.identifier,
        'fingerprint': ref.fingerprint, 'pub.fingerprint': ref.fingerprint,
        'parent_fingerprint': ref.parent_fp, 'pub.parent_fingerprint': ref.parent_fp,
        'xprv_raw': ref.raw(True, vprv, vpub), 'xpub_raw': ref.raw(False, vprv, vpub),
        'xprv': ref.xprv(vprv, vpub), 'xpub': ref.xpub(vprv, vpub),
        'address': ref_address(net, ref.pub_bytes), 'pub.address': ref_address(net, ref.pub_bytes),
    }


FIELD_ORDER = ['privkey', 'secret_exponent', 'chain_code', 'pub.chain_code', 'pubkey', 'ec_point', 'index', 'pub.index',
               'depth', 'pub.depth', 'identifier', 'pub.identifier', 'fingerprint', 'pub.fingerprint',
               'parent_fingerprint', 'pub.parent_fingerprint', 'xprv_raw', 'xpub_raw', 'xprv', 'xpub',
               'address', 'pub.address']


def fmt(v):
    return v.hex() if isinstance(v, (bytes, bytearray)) else v


def compare_node(rec, lb, key, ref, net, cls, ctx):
    """K1 (+K5 address) at one node; returns True when everything agreed."""
    try:
        got = observe_node(key)
    except Exception as e:  # noqa  (lbry accessor failed)
        rec.violation(f'C06/K1/raises/{type(e).__name__}@node-accessor/{cls}',
                      f'{type(e).__name__}: {e} while reading the key at {ctx}', {'ctx': ctx})
        return False
    want = expect_node(ref, net)
    rec.hit('K1.node_checked')
    if ref.priv_bytes[0] == 0:
        rec.hit('K1.class.priv_leading_zero')
    if ref.c[0] == 0:
        rec.hit('K1.class.chain_code_leading_zero')
    if ref.pub_bytes[1] == 0:
        rec.hit('K1.class.pubkey_x_leading_zero')
    for f in FIELD_ORDER:
        if got[f] != want[f]:
            clause = 'K5' if f.endswith('address') else 'K1'
            rec.violation(f'C06/{clause}/{f}/{cls}',
                          f'{f} at {ctx}: lbry {fmt(got[f])!r} != BIP32 reference {fmt(want[f])!r}',
                          {'ctx': ctx, 'field': f, 'lbry': fmt(got[f]), 'reference': fmt(want[f]),
                           'all_mismatching_fields': [x for x in FIELD_ORDER if got[x] != want[x]]})
            return False
    rec.hit('K5.node_address_checked')
    return True


def check_k3(rec, lb, L, key, private, depth, r, ctx, ncorrupt=4):
    """decode(encode(key)) on the real objects."""
    kind = 'xprv' if private else 'xpub'
    s = key.extended_key_string()
    try:
        back = lb.bip32.from_extended_key_string(L, s)
    except Exception as e:  # noqa
        rec.violation(f'C06/K3/decode-raises/{type(e).__name__}/{kind}',
                      f'from_extended_key_string({s!r}) raised {type(e).__name__}: {e} ({ctx})', {'s': s, 'ctx': ctx})
        return
    rec.hit('K3.roundtrip_checked')
    want_type = lb.PrivateKey if private else lb.PublicKey
    if type(back) is not want_type:
        rec.violation(f'C06/K3/type/{kind}', f'{s!r} decoded to {type(back).__name__} ({ctx})', {'s': s, 'ctx': ctx})
        return
    pairs = [('key-bytes', bytes(key.private_key_bytes if private else key.pubkey_bytes),
              bytes(back.private_key_bytes if private else back.pubkey_bytes)),
             ('chain-code', bytes(key.chain_code), bytes(back.chain_code)),
             ('depth', key.depth, back.depth), ('index', key.n, back.n)]
    for name, a, b in pairs:
        if a != b:
            rec.violation(f'C06/K3/field-lost/{name}/{kind}',
                          f'{name} {fmt(a)!r} became {fmt(b)!r} after decode(encode()) of {s!r} ({ctx})',
                          {'s': s, 'field': name, 'before': fmt(a), 'after': fmt(b), 'ctx': ctx})
            return
    s2 = back.extended_key_string()
    if depth == 0:
        rec.hit('K3.depth0_string_checked')
        if s2 != s:
            rec.violation(f'C06/K3/depth0-string-changed/{kind}', f'{s!r} re-encodes as {s2!r} ({ctx})',
                          {'s': s, 's2': s2, 'ctx': ctx})
    elif s2 != s:
        a, b = R.b58decode(s), R.b58decode(s2)
        diff = [i for i in range(min(len(a), len(b), 78)) if a[i] != b[i]]
        if len(a) == len(b) and all(5 <= i <= 8 for i in diff):
            rec.log('K3.deep_key_reencode_drops_parent_fingerprint')
        else:
            rec.violation(f'C06/K3/reencode-differs-outside-parent-fingerprint/{kind}',
                          f'{s!r} re-encodes as {s2!r}: bytes {diff} differ ({ctx})', {'s': s, 's2': s2, 'ctx': ctx})
    for mkind, m in corruptions(r, s, ncorrupt):
        if R.b58check_valid(m):
            rec.log('K3.corruption_accidentally_valid')
            continue
        rec.hit('K3.corrupt_rejected_checked')
        try:
            got = lb.bip32.from_extended_key_string(L, m)
        except (lb.Base58Error, ValueError):
            continue
        except Exception as e:  # noqa
            rec.log(f'K3.reject_by_{type(e).__name__}')
            continue
        rec.violation(f'C06/K3/checksum-error-accepted/{mkind}',
                      f'from_extended_key_string({m!r}) returned {type(got).__name__} although the Base58Check '
                      f'checksum is wrong ({mkind} of a valid {kind})', {'corrupted': m, 'original': s, 'kind': mkind})


def check_k2(rec, lb, key, ref, i, net, ctx):
    """public derivation from `key.public_key` at index i against private derivation and reference."""
    _, vprv, vpub, _, _ = NETS[net]
    pub = key.public_key
    if i >= H:
        rec.hit('K2.hardened_refused_checked')
        try:
            got = pub.child(i)
        except (ValueError, lb.bip32.DerivationError):
            return True
        except Exception as e:  # noqa
            rec.log(f'K2.hardened_refused_by_{type(e).__name__}')
            return True
        rec.violation(f'C06/K2/hardened-public-derivation-not-refused/{idx_class(i)}',
                      f'PublicKey.child({i}) returned a key ({got.extended_key_string()}) at {ctx}',
                      {'ctx': ctx, 'i': i})
        return False
    try:
        want = ref.neuter().ckd_pub(i)
        want_priv = ref.ckd_priv(i)
    except R.InvalidChild:
        rec.log('K2.invalid_child_skipped')
        return True
    try:
        a = pub.child(i)
        b = key.child(i).public_key
        ga = {'pubkey': bytes(a.pubkey_bytes), 'chain_code': bytes(a.chain_code), 'index': a.n, 'depth': a.depth,
              'parent_fingerprint': bytes(a.parent_fingerprint()), 'xpub': a.extended_key_string(), 'address': a.address}
        gb = {'pubkey': bytes(b.pubkey_bytes), 'chain_code': bytes(b.chain_code), 'index': b.n, 'depth': b.depth,
              'parent_fingerprint': bytes(b.parent_fingerprint()), 'xpub': b.extended_key_string(), 'address': b.address}
    except Exception as e:  # noqa
        rec.violation(f'C06/K2/raises/{type(e).__name__}@public-child/{idx_class(i)}',
                      f'{type(e).__name__}: {e} deriving public child {i} at {ctx}', {'ctx': ctx, 'i': i})
        return False
    rec.hit('K2.pub_eq_checked')
    rec.hit('K2.idx.' + idx_class(i))
    assert want.K == want_priv.K and want.c == want_priv.c, 'reference CKDpub/CKDpriv disagree'
    w = {'pubkey': want.pub_bytes, 'chain_code': want.c, 'index': i, 'depth': ref.depth + 1,
         'parent_fingerprint': ref.fingerprint, 'xpub': want.xpub(vprv, vpub), 'address': ref_address(net, want.pub_bytes)}
    for f in ('pubkey', 'chain_code', 'index', 'depth', 'parent_fingerprint', 'xpub', 'address'):
        if ga[f] != gb[f]:
            rec.violation(f'C06/K2/public-child-differs-from-private-child/{f}',
                          f'{f}: public_key.child({i}) gives {fmt(ga[f])!r}, child({i}).public_key gives {fmt(gb[f])!r} at {ctx}',
                          {'ctx': ctx, 'i': i, 'field': f, 'from_public': fmt(ga[f]), 'from_private': fmt(gb[f]),
                           'reference': fmt(w[f])})
            return False
        if ga[f] != w[f]:
            rec.violation(f'C06/K2/public-child-differs-from-reference/{f}',
                          f'{f}: public_key.child({i}) gives {fmt(ga[f])!r}, reference CKDpub {fmt(w[f])!r} at {ctx}',
                          {'ctx': ctx, 'i': i, 'field': f, 'lbry': fmt(ga[f]), 'reference': fmt(w[f])})
            return False
    return True


def run_path(rec, seed, path, net, tag='path', vector=None):
    lb = Lbry.get()
    L = lb.ledger_class(net)
    _, vprv, vpub, _, _ = NETS[net]
    r = random.Random(hashlib.sha256(seed + repr(path).encode()).digest())
    try:
        ref = R.master(seed)
    except R.InvalidChild:
        rec.log('K1.invalid_master_skipped')
        return
    ctx = f'seed={seed.hex()} net={net} path=m'
    try:
        key = lb.PrivateKey.from_seed(L, seed)
    except Exception as e:  # noqa
        rec.violation(f'C06/K1/raises/{type(e).__name__}@from_seed', f'{type(e).__name__}: {e} for {ctx}', {'ctx': ctx})
        return
    rec.hit('K1.net.' + net)
    rec.hit('K1.seedlen.%s' % (len(seed) if len(seed) in SEED_LENS else 'other'))
    rec.case(b'node' + seed + b'/m', sample={'seed': seed.hex(), 'path': 'm', 'net': net, 'xpub': ref.xpub(vprv, vpub)})
    if not compare_node(rec, lb, key, ref, net, 'master', ctx):
        return
    if vector:
        check_vector_strings(rec, key, vector[0], ctx)
    check_k3(rec, lb, L, key, True, 0, r, ctx)
    check_k3(rec, lb, L, key.public_key, False, 0, r, ctx)
    for d, i in enumerate(path):
        if rec.out_of_time():
            return
        # K2 at this node: the path's own index, one extra boundary normal index, both hardened edges
        if not check_k2(rec, lb, key, ref, i, net, ctx):
            return
        extra = r.choice([0, 1, H - 1])
        if extra != i and not check_k2(rec, lb, key, ref, extra, net, ctx):
            return
        for hi in (H, 2 ** 32 - 1):
            if not check_k2(rec, lb, key, ref, hi, net, ctx):
                return
        try:
            ref_child = ref.ckd_priv(i)
        except R.InvalidChild:
            rec.log('K1.invalid_child_skipped')
            return
        ctx = ctx + '/' + (f"{i - H}'" if i >= H else str(i))
        try:
            child = key.child(i)
        except Exception as e:  # noqa
            rec.violation(f'C06/K1/raises/{type(e).__name__}@PrivateKey.child/{hcls(i)}',
                          f'{type(e).__name__}: {e} deriving {ctx}', {'ctx': ctx, 'i': i})
            return
        rec.case(b'node' + seed + repr(path[:d + 1]).encode())
        rec.hit('K1.idx.' + idx_class(i))
        rec.hit('K1.depth.%d' % (d + 1))
        if not compare_node(rec, lb, child, ref_child, net, hcls(i) + ('/idx=' + IDX_NAME[i] if i in IDX_NAME else ''), ctx):
            return
        if vector:
            check_vector_strings(rec, child, vector[d + 1], ctx)
        check_k3(rec, lb, L, child, True, d + 1, r, ctx, ncorrupt=2)
        check_k3(rec, lb, L, child.public_key, False, d + 1, r, ctx, ncorrupt=2)
        key, ref = child, ref_child
    # children of the DECODED xprv / xpub of the last node (what a wallet restored from its stored strings does)
    try:
        wprv = lb.bip32.from_extended_key_string(L, key.extended_key_string())
        wpub = lb.bip32.from_extended_key_string(L, key.public_key.extended_key_string())
    except Exception:  # noqa  (already judged by K3)
        return
    for i in (r.choice([0, 1, H - 1, r.randrange(H)]), r.choice([H, H + 1, 2 ** 32 - 1, H + r.randrange(H)])):
        try:
            rchild = ref.ckd_priv(i)
        except R.InvalidChild:
            continue
        ctx2 = f'{ctx} -> decoded xprv -> child {i}'
        try:
            c = wprv.child(i)
            got = {'privkey': bytes(c.private_key_bytes), 'chain_code': bytes(c.chain_code), 'index': c.n, 'depth': c.depth,
                   'xprv': c.extended_key_string(), 'xpub': c.public_key.extended_key_string(), 'address': c.address}
        except Exception as e:  # noqa
            rec.violation(f'C06/K3/raises/{type(e).__name__}@child-of-decoded-xprv/{hcls(i)}',
                          f'{type(e).__name__}: {e} at {ctx2}', {'ctx': ctx2})
            return
        rec.hit('K3.decoded_xprv_child_checked')
        want = {'privkey': rchild.priv_bytes, 'chain_code': rchild.c, 'index': i, 'depth': rchild.depth,
                'xprv': rchild.xprv(vprv, vpub), 'xpub': rchild.xpub(vprv, vpub), 'address': ref_address(net, rchild.pub_bytes)}
        for f in ('privkey', 'chain_code', 'index', 'depth', 'xprv', 'xpub', 'address'):
            if got[f] != want[f]:
                rec.violation(f'C06/K3/child-of-decoded-xprv-differs-from-reference/{f}/{hcls(i)}',
                              f'{f}: lbry {fmt(got[f])!r} != reference {fmt(want[f])!r} at {ctx2}',
                              {'ctx': ctx2, 'field': f, 'lbry': fmt(got[f]), 'reference': fmt(want[f])})
                return
    rnode = ref.neuter()
    for step in range(2):
        i = r.choice([0, 1, H - 1, r.randrange(H)])
        try:
            rnode2 = rnode.ckd_pub(i)
        except R.InvalidChild:
            return
        ctx2 = f'{ctx} -> decoded xpub -> public child {i} (step {step})'
        try:
            wpub2 = wpub.child(i)
            got = {'pubkey': bytes(wpub2.pubkey_bytes), 'chain_code': bytes(wpub2.chain_code), 'index': wpub2.n,
                   'depth': wpub2.depth, 'xpub': wpub2.extended_key_string(), 'address': wpub2.address}
        except Exception as e:  # noqa
            rec.violation(f'C06/K2/raises/{type(e).__name__}@public-chain',
                          f'{type(e).__name__}: {e} at {ctx2}', {'ctx': ctx2})
            return
        rec.hit('K2.pubchain_checked')
        want = {'pubkey': rnode2.pub_bytes, 'chain_code': rnode2.c, 'index': i, 'depth': rnode2.depth,
                'xpub': rnode2.xpub(vprv, vpub), 'address': ref_address(net, rnode2.pub_bytes)}
        for f in ('pubkey', 'chain_code', 'index', 'depth', 'xpub', 'address'):
            if got[f] != want[f]:
                rec.violation(f'C06/K2/public-chain-differs-from-reference/{f}',
                              f'{f}: lbry {fmt(got[f])!r} != reference {fmt(want[f])!r} at {ctx2}',
                              {'ctx': ctx2, 'field': f, 'lbry': fmt(got[f]), 'reference': fmt(want[f])})
                return
        wpub, rnode = wpub2, rnode2


def check_vector_strings(rec, key, entry, ctx):
    """the literal strings of the BIP32 document, independent even of the reference."""
    _, xpub, xprv = entry
    rec.hit('K1.vector_node_checked')
    got_prv, got_pub = key.extended_key_string(), key.public_key.extended_key_string()
    if got_prv != xprv:
        rec.violation('C06/K1/official-vector/xprv', f'{ctx}: {got_prv} != official {xprv}', {'ctx': ctx})
    if got_pub != xpub:
        rec.violation('C06/K1/official-vector/xpub', f'{ctx}: {got_pub} != official {xpub}', {'ctx': ctx})


# ------------------------------------------------------------------------------ K4 / K5
def payload_class(p):
    if len(p) == 0:
        return 'empty'
    z = len(p) - len(p.lstrip(b'\0'))
    if z == len(p):
        return 'all-zero'
    return 'leading-zeros' if z else 'no-leading-zero'


def check_payload(rec, lb, payload, r, nmut):
    B = lb.Base58
    cls = payload_class(payload)
    rec.case(b'b58' + payload)
    want = R.b58check_encode(payload)
    try:
        s = B.encode_check(payload)
    except Exception as e:  # noqa
        rec.violation(f'C06/K4/encode-raises/{type(e).__name__}/{cls}',
                      f'Base58.encode_check({payload.hex()!r}) raised {type(e).__name__}: {e}', {'payload': payload.hex()})
        return
    rec.hit('K4.roundtrip_checked')
    rec.hit('K4.class.' + cls)
    if s != want:
        rec.violation(f'C06/K4/encode-differs-from-reference/{cls}',
                      f'Base58.encode_check({payload.hex()!r}) = {s!r}, reference {want!r}',
                      {'payload': payload.hex(), 'lbry': s, 'reference': want})
        return
    try:
        back = bytes(B.decode_check(s))
    except Exception as e:  # noqa
        rec.violation(f'C06/K4/rejects-valid/{cls}',
                      f'Base58.decode_check({s!r}) raised {type(e).__name__}: {e} for its own encoding of {payload.hex()!r}',
                      {'payload': payload.hex(), 's': s})
        return
    if back != payload:
        rec.violation(f'C06/K4/roundtrip/{cls}',
                      f'decode_check(encode_check({payload.hex()!r})) = {back.hex()!r}', {'payload': payload.hex(), 's': s,
                                                                                         'back': back.hex()})
        return
    for kind, m in corruptions(r, s, nmut):
        check_b58_string(rec, lb, kind, m, s)


def check_b58_string(rec, lb, kind, m, origin=None):
    try:
        want = R.b58check_decode(m)
    except ValueError:
        want = None
    try:
        got = bytes(lb.Base58.decode_check(m))
        err = None
    except (lb.Base58Error, ValueError) as e:
        got, err = None, e
    except Exception as e:  # noqa
        got, err = None, e
        rec.log(f'K4.reject_by_{type(e).__name__}')
    rec.hit('K4.mut.' + kind)
    if want is None:
        rec.hit('K4.corrupt_reject_checked')
        if err is None:
            rec.violation(f'C06/K4/accepts-corrupted/{kind}',
                          f'Base58.decode_check({m!r}) = {got.hex()!r} although the reference decoder rejects it '
                          f'({kind}' + (f' of {origin!r})' if origin else ')'),
                          {'string': m, 'origin': origin, 'kind': kind, 'lbry_payload': got.hex()})
    else:
        rec.hit('K4.valid_variant_checked')
        if err is not None:
            rec.violation(f'C06/K4/rejects-valid/{kind}', f'Base58.decode_check({m!r}) raised {err!r}; reference payload '
                          f'{want.hex()!r}', {'string': m, 'reference_payload': want.hex()})
        elif got != want:
            rec.violation(f'C06/K4/decodes-wrong-payload/{kind}', f'Base58.decode_check({m!r}) = {got.hex()!r}, reference '
                          f'{want.hex()!r}', {'string': m, 'lbry': got.hex(), 'reference': want.hex()})


def rand_payload(r):
    n = r.choice([0, 1, 2, 3, 4, 5, 20, 21, 25, 32, 33, 34, 64, 78, 78, 99, 100, r.randrange(0, 101)])
    z = min(n, r.choice([0, 0, 0, 1, 1, 2, 5, n]))
    return bytes(z) + bytes(r.randrange(1, 256) if j == 0 else r.getrandbits(8) for j in range(n - z))


def addr_verdict(L, address):
    """('accept'|'false'|'raise:<Type>')"""
    try:
        return 'accept' if L.is_pubkey_address(address) else 'false'
    except Exception as e:  # noqa
        return 'raise:' + type(e).__name__


def check_address(rec, lb, net, h160, r, nmut):
    L = lb.ledger_class(net)
    _, _, _, pfx, spfx = NETS[net]
    rec.case(b'addr' + net.encode() + h160)
    want = R.b58check_encode(pfx + h160)
    wants = R.b58check_encode(spfx + h160)
    try:
        a = L.hash160_to_address(h160)
        sa = L.hash160_to_script_address(h160)
        back = bytes(L.address_to_hash160(a))
        v = (L.is_pubkey_address(a), L.is_script_address(a), L.is_pubkey_address(sa), L.is_script_address(sa))
    except Exception as e:  # noqa
        rec.violation(f'C06/K5/raises/{type(e).__name__}@address-helpers',
                      f'{type(e).__name__}: {e} for hash160 {h160.hex()} on {net}', {'h160': h160.hex(), 'net': net})
        return
    rec.hit('K5.addr_checked')
    if a != want or sa != wants:
        rec.violation('C06/K5/address-differs-from-reference',
                      f'{net} hash160 {h160.hex()}: address {a!r}/{sa!r}, reference {want!r}/{wants!r}',
                      {'h160': h160.hex(), 'net': net, 'lbry': [a, sa], 'reference': [want, wants]})
        return
    if back != h160:
        rec.violation('C06/K5/address-roundtrip', f'address_to_hash160({a!r}) = {back.hex()}, expected {h160.hex()}',
                      {'address': a, 'h160': h160.hex(), 'back': back.hex()})
        return
    if v != (True, False, False, True):
        rec.violation('C06/K5/valid-address-misclassified',
                      f'{net}: (is_pubkey(a), is_script(a), is_pubkey(script a), is_script(script a)) = {v} for {a!r}/{sa!r}',
                      {'address': a, 'script_address': sa, 'verdicts': list(v)})
        return
    # foreign prefixes with a correct checksum: Bitcoin main (0x00, leading "1"), the script prefix, another net
    for fp in (b'\x00', spfx, bytes((pfx[0] ^ 1,))):
        foreign = R.b58check_encode(fp + h160)
        rec.hit('K5.foreign_prefix_checked')
        verdict = addr_verdict(L, foreign)
        if verdict == 'accept':
            rec.violation('C06/K5/foreign-prefix-accepted',
                          f'{net}: is_pubkey_address({foreign!r}) is True, version byte 0x{fp.hex()}',
                          {'address': foreign, 'net': net, 'prefix': fp.hex()})
    for kind, m in corruptions(r, a, nmut):
        try:
            p = R.b58check_decode(m)
        except ValueError:
            p = None
        if p is not None:
            rec.log('K5.corruption_accidentally_valid')
            continue
        rec.hit('K5.invalid_checked')
        verdict = addr_verdict(L, m)
        if verdict == 'accept':
            rec.violation(f'C06/K5/invalid-address-accepted/{kind}',
                          f'{net}: is_pubkey_address({m!r}) is True ({kind} of {a!r}), Base58Check is wrong',
                          {'address': m, 'origin': a, 'kind': kind, 'net': net})
        elif verdict.startswith('raise:') and verdict not in ('raise:Base58Error', 'raise:ValueError'):
            rec.log('K5.reject_by_' + verdict[6:])
        try:   # observed, not judged: the raw accessor has no checksum test
            L.address_to_hash160(m)
            rec.log('K5.address_to_hash160_returns_for_bad_checksum')
        except Exception:  # noqa
            rec.log('K5.address_to_hash160_raises_for_bad_checksum')


# ------------------------------------------------------------------------------ K6
def make_mnemonic(lb, kind, mseed):
    r = random.Random(mseed)
    if kind == 'string':
        alphabet = 'abcdefghijklmnopqrstuvwxyz0123456789'
        return ' '.join(''.join(r.choice(alphabet) for _ in range(r.randrange(1, 9))) for _ in range(r.randrange(1, 7)))
    from lbry.wallet.words import english
    return ' '.join(r.choice(english.words) for _ in range(r.choice([12, 12, 13, 24])))


def ref_account(mnemonic):
    seed = hashlib.pbkdf2_hmac('sha512', mnemonic.encode('utf8'), b'lbryum', 2048, 64)
    return R.master(seed)


async def account_transcript(lb, net, mnemonic, generator, use, from_xkey=None):
    """everything one fresh Ledger+Database shows for this account (all calls are real lbry code)."""
    w = lb.w
    L = lb.ledger_class(net)
    ledger = L({'db': w.Database(':memory:'), 'headers': w.Headers(':memory:')})
    await ledger.db.open()
    try:
        d = {'name': 'x', 'address_generator': generator}
        if from_xkey:
            d.update(from_xkey)
        else:
            d['seed'] = mnemonic
        account = w.Account.from_dict(ledger, w.Wallet(), d)
        t = {'id': account.id, 'xpub': account.public_key.extended_key_string(),
             'xprv': account.private_key.extended_key_string() if account.private_key else None,
             'gaps': [getattr(account.receiving, 'gap', None), getattr(account.change, 'gap', None)]}

        async def chain_records(am):
            recs = await am.get_address_records(order_by='n asc')
            return [[x['pubkey'].n, x['address'], bytes(x['pubkey'].pubkey_bytes).hex(), x['used_times'], x['chain']]
                    for x in recs]

        t['before'] = [await chain_records(account.receiving), await chain_records(account.change)]
        t['returned'] = list(await account.ensure_address_gap())
        t['receiving'] = await chain_records(account.receiving)
        t['change'] = await chain_records(account.change)
        t['returned_again'] = list(await account.ensure_address_gap())
        t['receiving_again'] = await chain_records(account.receiving)
        t['privkeys'] = []
        if account.private_key is not None:
            for recs in (t['receiving'], t['change']):
                for n, address, _, _, chain in (recs[:2] + recs[-1:]):   # chain as stored, as the ledger passes it
                    k = account.get_private_key(chain, n)
                    t['privkeys'].append([chain, n, address, bytes(k.private_key_bytes).hex(), k.address,
                                          bytes(account.get_public_key(chain, n).pubkey_bytes).hex()])
        # mark one receiving address used and top the gap up again
        t['after_use'] = None
        if t['receiving'] and generator.get('name') != 'single-address':
            j = min(use, len(t['receiving']) - 1)
            await ledger.db.set_address_history(t['receiving'][j][1], 'a' * 64 + ':1:')
            t['use_index'] = j
            t['returned_after_use'] = list(await account.receiving.ensure_address_gap())
            t['after_use'] = await chain_records(account.receiving)
        return t
    finally:
        await ledger.db.close()


def check_account(rec, case, mnemonic=None):
    lb = Lbry.get()
    net, kind = case['net'], case['kind']
    mnemonic = mnemonic or make_mnemonic(lb, 'words' if kind == 'single' else kind, case['mseed'])
    if kind == 'single':
        generator = {'name': 'single-address'}
        gaps = None
    elif case['gaps'] is None:
        generator = {}
        gaps = [20, 6]        # documented defaults of the deterministic chain
    else:
        gaps = list(case['gaps'])
        generator = {'name': 'deterministic-chain',
                     'receiving': {'gap': gaps[0], 'maximum_uses_per_address': 1},
                     'change': {'gap': gaps[1], 'maximum_uses_per_address': 1}}
    rec.case('acct' + repr((mnemonic, gaps, kind, net)),
             sample={'mnemonic': mnemonic, 'gaps': gaps, 'kind': kind, 'net': net})
    _, vprv, vpub, pfx, _ = NETS[net]
    root = ref_account(mnemonic)
    witness = {'mnemonic': mnemonic, 'generator': generator, 'net': net}
    try:
        t1 = asyncio.run(account_transcript(lb, net, mnemonic, generator, case['use']))
        t2 = asyncio.run(account_transcript(lb, net, mnemonic, generator, case['use']))
    except Exception as e:  # noqa
        import traceback
        rec.violation(f'C06/K6/raises/{type(e).__name__}@account',
                      f'{type(e).__name__}: {e} building the account of {mnemonic!r} {generator}',
                      dict(witness, traceback=traceback.format_exc()[-1500:]))
        return
    rec.hit('K6.account_checked')
    rec.hit('K6.second_db_checked')
    if t1 != t2:
        diff = [k for k in t1 if t1[k] != t2.get(k)]
        rec.violation('C06/K6/second-database-differs',
                      f'the same mnemonic {mnemonic!r} gave different {diff} on a second fresh database',
                      dict(witness, first={k: t1[k] for k in diff}, second={k: t2[k] for k in diff}))
        return
    # account root (K1 at m)
    if t1['xprv'] != root.xprv(vprv, vpub) or t1['xpub'] != root.xpub(vprv, vpub) or t1['id'] != ref_address(net, root.pub_bytes):
        rec.violation('C06/K6/account-root',
                      f'account of {mnemonic!r}: root {t1["xprv"]} / {t1["xpub"]} / id {t1["id"]} != reference '
                      f'{root.xprv(vprv, vpub)} / {root.xpub(vprv, vpub)} / {ref_address(net, root.pub_bytes)}', witness)
        return
    if t1['before'] != [[], []]:
        rec.violation('C06/K6/fresh-database-not-empty', f'addresses before ensure_address_gap: {t1["before"]}', witness)
        return
    if kind == 'single':
        rec.hit('K6.single_key_checked')
        a = ref_address(net, root.pub_bytes)
        got = [[x[1] for x in t1['receiving']], [x[1] for x in t1['change']], t1['returned']]
        if got != [[a], [a], [a]]:
            rec.violation('C06/K6/single-address', f'single-address account of {mnemonic!r}: {got}, reference address {a}',
                          dict(witness, got=got, reference=a))
            return
        for chain, n, address, priv_hex, kaddr, pub_hex in t1['privkeys']:
            rec.hit('K6.private_key_checked')
            if priv_hex != root.priv_bytes.hex() or kaddr != a:
                rec.violation('C06/K6/private-key-for-address',
                              f'single-address account of {mnemonic!r}: get_private_key({chain},{n}) = {priv_hex} ({kaddr}), '
                              f'reference {root.priv_bytes.hex()} ({a})', dict(witness, chain=chain, n=n))
                return
        return
    refchains = {}

    def ref_chain(c, count):
        node = refchains.setdefault(c, (root.neuter().ckd_pub(c), {}))
        for n in range(count):
            if n not in node[1]:
                node[1][n] = node[0].ckd_pub(n)
        return [[n, ref_address(net, node[1][n].pub_bytes), node[1][n].pub_bytes.hex()] for n in range(count)]

    for cname, c, gap in (('receiving', 0, gaps[0]), ('change', 1, gaps[1])):
        rec.hit('K6.gap.%d' % gap)
        got = [x[:3] for x in t1[cname]]
        want = ref_chain(c, gap)
        if got != want:
            what = 'count' if len(got) != len(want) else 'address'
            rec.violation(f'C06/K6/{cname}-chain/{what}',
                          f'{cname} addresses of {mnemonic!r} with gap {gap}: {len(got)} records '
                          f'{[x[:2] for x in got][:4]}..., reference has {len(want)}: {[x[:2] for x in want][:4]}...',
                          dict(witness, chain=c, gap=gap, lbry=got, reference=want))
            return
        if any(x[3] != 0 or x[4] != c for x in t1[cname]):
            rec.violation(f'C06/K6/{cname}-chain/record-fields', f'used_times/chain wrong in {t1[cname]}', witness)
            return
    want_ret = [x[1] for x in ref_chain(0, gaps[0])] + [x[1] for x in ref_chain(1, gaps[1])]
    if sorted(t1['returned']) != sorted(want_ret):
        rec.violation('C06/K6/returned-new-addresses', f'ensure_address_gap returned {t1["returned"]}, reference {want_ret}',
                      dict(witness, lbry=t1['returned'], reference=want_ret))
        return
    if t1['returned'] != want_ret:
        rec.log('K6.returned_order_differs_from_chain_order')
    if t1['returned_again'] != [] or t1['receiving_again'] != t1['receiving']:
        rec.violation('C06/K6/second-ensure-not-idempotent',
                      f'a second ensure_address_gap on an unused account returned {t1["returned_again"]}',
                      dict(witness, again=t1['receiving_again']))
        return
    for chain, n, address, priv_hex, kaddr, pub_hex in t1['privkeys']:
        rec.hit('K6.private_key_checked')
        node = root.ckd_priv(chain).ckd_priv(n)
        if priv_hex != node.priv_bytes.hex() or kaddr != address or pub_hex != node.pub_bytes.hex():
            rec.violation('C06/K6/private-key-for-address',
                          f'get_private_key({chain},{n}) of {mnemonic!r}: key {priv_hex} address {kaddr}; stored address '
                          f'{address}; reference key {node.priv_bytes.hex()}',
                          dict(witness, chain=chain, n=n))
            return
    # after one receiving address was used
    j = t1['use_index']
    rec.hit('K6.after_use_checked')
    got = [x[:3] for x in t1['after_use']]
    ns = [x[0] for x in got]
    if ns != list(range(len(ns))):
        rec.violation('C06/K6/after-use/holes-or-duplicates', f'receiving n values after using #{j}: {ns}',
                      dict(witness, use=j, n=ns))
        return
    want = ref_chain(0, len(got))
    if got != want:
        rec.violation('C06/K6/after-use/address', f'receiving addresses after using #{j} differ from the reference prefix',
                      dict(witness, use=j, lbry=got, reference=want))
        return
    used = [x[0] for x in t1['after_use'] if x[3] > 0]
    trailing = len(got) - 1 - max(used) if used else len(got)
    if used != [j]:
        rec.violation('C06/K6/after-use/used-flag', f'used addresses {used}, expected [{j}]', dict(witness, use=j))
        return
    if trailing != gaps[0]:
        rec.violation('C06/K6/after-use/gap',
                      f'after using receiving #{j} with gap {gaps[0]}, ensure_address_gap left {trailing} unused addresses '
                      f'after it ({len(got)} records)', dict(witness, use=j, records=len(got), trailing_unused=trailing))
        return
    if sorted(t1['returned_after_use']) != sorted(x[1] for x in want[gaps[0]:]):
        rec.violation('C06/K6/after-use/returned', f'returned {t1["returned_after_use"]}',
                      dict(witness, use=j, reference=[x[1] for x in want[gaps[0]:]]))
        return
    # watch-only / xprv restore: what a wallet file stores (depth-0 strings) regenerates the same chains
    for label, xk in (('xprv', {'private_key': t1['xprv'], 'public_key': t1['xpub']}), ('xpub', {'public_key': t1['xpub']})):
        try:
            t3 = asyncio.run(account_transcript(lb, net, None, generator, case['use'], from_xkey=xk))
        except Exception as e:  # noqa
            rec.violation(f'C06/K6/raises/{type(e).__name__}@restore-from-{label}',
                          f'{type(e).__name__}: {e} restoring {mnemonic!r} from its {label}', witness)
            return
        rec.hit('K6.restore_from_xkey_checked')
        for f in ('id', 'xpub', 'receiving', 'change', 'after_use'):
            if t3[f] != t1[f]:
                rec.violation(f'C06/K6/restore-from-{label}-differs/{f}',
                              f'account restored from the {label} string of {mnemonic!r} shows different {f}',
                              dict(witness, from_seed=t1[f], restored=t3[f]))
                return


# ------------------------------------------------------------------------------ K6: several accounts, one ledger database
def shared_specs(lb, case):
    """[{kind, mnemonic, generator, gaps}] of the accounts of one `shared` case (harness side only)."""
    specs = []
    for a, (kind, rg, cg) in enumerate(case['accts']):
        mnemonic = make_mnemonic(lb, 'string' if kind == 'string' else 'words', case['mseed'] * 8 + a)
        if kind == 'single':
            generator, gaps = {'name': 'single-address'}, None
        elif rg is None:
            generator, gaps = {}, [20, 6]
        else:
            gaps = [rg, cg]
            generator = {'name': 'deterministic-chain', 'receiving': {'gap': rg, 'maximum_uses_per_address': 1},
                         'change': {'gap': cg, 'maximum_uses_per_address': 1}}
        specs.append({'kind': kind, 'mnemonic': mnemonic, 'generator': generator, 'gaps': gaps})
    return specs


def shared_plan(case, specs):
    """operations and, from the harness' own bookkeeping, the chain lengths / used indices they must leave behind:
    an account's chain only changes through its own ensure_address_gap: up to `gap` unused addresses after the newest used one."""
    r = random.Random(case['mseed'] ^ 0x5ed)
    k = len(specs)
    length = {(a, c): 0 for a in range(k) for c in (0, 1)}
    used = {(a, c): set() for a in range(k) for c in (0, 1)}
    ops = []

    def ensure(a):
        new = {}
        for c in (0, 1):
            if specs[a]['gaps'] is None:      # single address: the one root key, kept under chain 0
                want = 1 if c == 0 else 0
            else:
                want = max(length[a, c], (max(used[a, c]) + 1 if used[a, c] else 0) + specs[a]['gaps'][c])
            new[c] = list(range(length[a, c], want))
            length[a, c] = want
        ops.append({'op': 'ensure', 'a': a, 'new': [new[0], new[1]], 'length': {f'{x}/{c}': length[x, c] for x, c in length},
                    'used': {f'{x}/{c}': sorted(used[x, c]) for x, c in used}})

    order = list(range(k))
    r.shuffle(order)
    for pos, a in enumerate(order):
        ensure(a)
        if pos and r.random() < 0.5:
            ensure(r.choice(order[:pos]))       # an earlier account tops up again after a later one generated
    hd = [a for a in range(k) if specs[a]['gaps'] is not None]
    for _ in range(case['uses'] if hd else 0):
        a, c = r.choice(hd), r.choice([0, 0, 1])
        n = length[a, c]
        j = r.choice([0, n - 1, max(0, n - specs[a]['gaps'][c]), r.randrange(n), r.randrange(n)])
        used[a, c].add(j)
        ops.append({'op': 'use', 'a': a, 'c': c, 'j': j})
        order = list(range(k))
        r.shuffle(order)
        for b in order:
            ensure(b)
    return ops


async def shared_transcript(lb, net, specs, ops, xpubs):
    """the operations on the REAL accounts of one Ledger+Database; after each the chains of EVERY account and the stored rows."""
    w = lb.w
    L = lb.ledger_class(net)
    ledger = L({'db': w.Database(':memory:'), 'headers': w.Headers(':memory:')})
    await ledger.db.open()
    try:
        wallet = w.Wallet()
        accounts = []
        for a, sp in enumerate(specs):
            d = {'name': f'account {a}', 'address_generator': sp['generator']}
            if sp['kind'] == 'xpub':
                d['public_key'] = xpubs[a]
            else:
                d['seed'] = sp['mnemonic']
            accounts.append(w.Account.from_dict(ledger, wallet, d))
        t = {'ids': [x.id for x in accounts], 'xpubs': [x.public_key.extended_key_string() for x in accounts], 'steps': []}

        async def view():
            chains = []
            for x in accounts:
                both = []
                for am in (x.receiving, x.change):
                    recs = await am.get_address_records(order_by='n asc')
                    both.append([[y['pubkey'].n, y['address'], bytes(y['pubkey'].pubkey_bytes).hex(), y['used_times'], y['chain']]
                                 for y in recs])
                chains.append(both)
            rows = await ledger.db.select_addresses('account, chain, n, address')
            return chains, sorted([y['account'], y['chain'], y['n'], y['address']] for y in rows)

        for op in ops:
            step = {'returned': None}
            if op['op'] == 'ensure':
                step['returned'] = list(await accounts[op['a']].ensure_address_gap())
            else:
                await ledger.db.set_address_history(op['address'], 'a' * 64 + ':1:')   # address by the reference
            step['chains'], step['rows'] = await view()
            t['steps'].append(step)
        # the ledger's lookup by address (what signing uses): first / last address of every chain
        t['lookups'] = []
        last_chains = t['steps'][-1]['chains']
        for a, x in enumerate(accounts):
            for recs in last_chains[a][:1 if specs[a]['gaps'] is None else 2]:
                for n, address, _, _, chain in (recs[:1] + recs[-1:]):
                    pub = await ledger.get_public_key_for_address(wallet, address)
                    owner = await ledger.get_account_for_address(wallet, address)
                    priv = await ledger.get_private_key_for_address(wallet, address) if x.private_key is not None else None
                    t['lookups'].append([a, chain, n, address, bytes(pub.pubkey_bytes).hex() if pub else None,
                                         accounts.index(owner) if owner in accounts else None,
                                         bytes(priv.private_key_bytes).hex() if priv else None, priv.address if priv else None])
        return t
    finally:
        await ledger.db.close()


def check_shared_ledger(rec, case):
    lb = Lbry.get()
    net = case['net']
    _, vprv, vpub, _, _ = NETS[net]
    specs = shared_specs(lb, case)
    if len({sp['mnemonic'] for sp in specs}) != len(specs):
        rec.log('K6.shared.duplicate_mnemonic_skipped')
        return
    ops = shared_plan(case, specs)
    roots = [ref_account(sp['mnemonic']) for sp in specs]
    ids = [ref_address(net, root.pub_bytes) for root in roots]
    xpubs = [root.xpub(vprv, vpub) for root in roots]
    rec.case('shared' + repr(([(sp['mnemonic'], sp['gaps'], sp['kind']) for sp in specs], net, case['uses'])),
             sample={'accounts': [[sp['kind'], sp['mnemonic'], sp['gaps']] for sp in specs], 'net': net,
                     'ops': [[o['op'], o['a']] + ([o['c'], o['j']] if o['op'] == 'use' else []) for o in ops]})
    witness = {'accounts': [{k: sp[k] for k in ('kind', 'mnemonic', 'generator')} for sp in specs], 'net': net}
    cache = {}

    def ref_chain(a, c, count):
        if specs[a]['gaps'] is None:
            return [[0, ids[a], roots[a].pub_bytes.hex()]][:count]
        if (a, c) not in cache:
            cache[a, c] = (roots[a].neuter().ckd_pub(c), [])
        parent, rows = cache[a, c]
        for n in range(len(rows), count):
            node = parent.ckd_pub(n)
            rows.append([n, ref_address(net, node.pub_bytes), node.pub_bytes.hex()])
        return rows[:count]

    for op in ops:
        if op['op'] == 'use':
            op['address'] = ref_chain(op['a'], op['c'], op['j'] + 1)[op['j']][1]
    try:
        t = asyncio.run(shared_transcript(lb, net, specs, ops, xpubs))
    except Exception as e:  # noqa
        import traceback
        rec.violation(f'C06/K6/shared-ledger/raises/{type(e).__name__}@accounts-in-one-ledger',
                      f'{type(e).__name__}: {e} running {len(specs)} accounts in one ledger database',
                      dict(witness, traceback=traceback.format_exc()[-1500:]))
        return
    rec.hit('K6.shared_ledger_checked')
    rec.hit('K6.shared.accounts.%d' % len(specs))
    if t['ids'] != ids or t['xpubs'] != xpubs:
        rec.violation('C06/K6/shared-ledger/account-root', f'account ids/xpubs {t["ids"]} {t["xpubs"]} != reference {ids} {xpubs}',
                      witness)
        return

    def describe(i):
        op = ops[i]
        return (f'step {i}: ensure_address_gap of account {op["a"]}' if op['op'] == 'ensure' else
                f'step {i}: payment to m/{op["c"]}/{op["j"]} of account {op["a"]}')

    length = {f'{a}/{c}': 0 for a in range(len(specs)) for c in (0, 1)}
    usedix = {f'{a}/{c}': [] for a in range(len(specs)) for c in (0, 1)}
    for i, (op, step) in enumerate(zip(ops, t['steps'])):
        if op['op'] == 'ensure':
            length, usedix = op['length'], op['used']
            if any(usedix.values()):
                rec.hit('K6.shared.after_use_checked')
        else:
            usedix = dict(usedix)
            usedix[f'{op["a"]}/{op["c"]}'] = sorted(set(usedix[f'{op["a"]}/{op["c"]}']) | {op['j']})
        rec.hit('K6.shared.step_checked')
        w2 = dict(witness, step=i, operation=describe(i), history=[describe(x) for x in range(i + 1)])
        want_rows = []
        for a in range(len(specs)):
            whose = 'own' if a == op['a'] else 'other'
            for cname, c in (('receiving', 0), ('change', 1)):
                single = specs[a]['gaps'] is None
                want = ref_chain(a, 0 if single else c, length[f'{a}/0'] if single else length[f'{a}/{c}'])
                got = step['chains'][a][c]
                if not (single and c == 1):
                    want_rows += [[ids[a], c, x[0], x[1]] for x in want]
                if [x[:3] for x in got] != want:
                    what = 'count' if len(got) != len(want) else 'address'
                    rec.violation(f'C06/K6/shared-ledger/{cname}-chain/{what}',
                                  f'{describe(i)} ({whose} account): {cname} chain of account {a} ({specs[a]["mnemonic"]!r}, gaps '
                                  f'{specs[a]["gaps"]}) has {len(got)} records n={[x[0] for x in got][:4]}.., its reference '
                                  f'chain m/{c}/0..{len(want) - 1} has {len(want)}',
                                  dict(w2, account=a, chain=c, lbry=[x[:3] for x in got], reference=want))
                    return
                want_used = usedix[f'{a}/{0 if single else c}']
                if [x[0] for x in got if x[3] > 0] != want_used or any(x[4] != (0 if single else c) for x in got):
                    rec.violation(f'C06/K6/shared-ledger/{cname}-chain/record-fields',
                                  f'{describe(i)}: used_times/chain of account {a} {cname}: used n={[x[0] for x in got if x[3] > 0]}, '
                                  f'paid to n={want_used}', dict(w2, account=a, chain=c, lbry=got))
                    return
        if step['rows'] != sorted(want_rows):
            rec.violation('C06/K6/shared-ledger/stored-rows',
                          f'{describe(i)}: the address table holds {len(step["rows"])} (account, chain, n, address) rows, the '
                          f'reference chains of the {len(specs)} accounts make {len(want_rows)}',
                          dict(w2, only_lbry=[x for x in step['rows'] if x not in want_rows][:10],
                               only_reference=[x for x in want_rows if x not in step['rows']][:10]))
            return
        if op['op'] == 'ensure':
            a = op['a']
            want_ret = [ref_chain(a, c, length[f'{a}/{c}'])[n][1] for c in (0, 1) for n in op['new'][c]]
            if sorted(step['returned']) != sorted(want_ret):
                rec.violation('C06/K6/shared-ledger/returned-new-addresses',
                              f'{describe(i)} returned {step["returned"]}, reference {want_ret}',
                              dict(w2, lbry=step['returned'], reference=want_ret))
                return
    privchains = {}
    for a, chain, n, address, pub_hex, owner, priv_hex, kaddr in t['lookups']:
        rec.hit('K6.shared.key_lookup_checked')
        single = specs[a]['gaps'] is None
        if not single and (a, chain) not in privchains:
            privchains[a, chain] = roots[a].ckd_priv(chain)
        node = roots[a] if single else privchains[a, chain].ckd_priv(n)
        w2 = dict(witness, account=a, chain=chain, n=n, address=address)
        if pub_hex != node.pub_bytes.hex() or owner != a:
            rec.violation('C06/K6/shared-ledger/public-key-for-address',
                          f'ledger lookup of {address} (m/{chain}/{n} of account {a}): account {owner}, public key {pub_hex}; '
                          f'reference {node.pub_bytes.hex()}', w2)
            return
        if specs[a]['kind'] == 'xpub':
            continue
        rec.hit('K6.shared.private_key_checked')
        if priv_hex != node.priv_bytes.hex() or kaddr != address:
            rec.violation('C06/K6/shared-ledger/private-key-for-address',
                          f'get_private_key_for_address({address}) (m/{chain}/{n} of account {a}) = {priv_hex} ({kaddr}); '
                          f'reference key {node.priv_bytes.hex()}', w2)
            return


# ------------------------------------------------------------------------------ K6: the gap settings the wallet saves
SYNC_PASSWORD = 'sync password'
DEFAULT_GAPS = [20, 6]          # documented defaults of the deterministic chain
# scripted histories [initial gaps (None = defaults), steps]; steps: ['set', [receiving gap, change gap]] account_set,
# ['pay', chain, n] payment to a generated address, ['publish', 'json'|'packed'] wallet export kept by the sync server,
# ['apply', copy, None] sync apply of that copy as exported, ['apply', copy, ['later'|'earlier', gaps]] after a second device
# loaded the copy and changed its gaps later / earlier than the last local change, ['restart'] what Ledger.start does
SAVED_SCRIPTS = {
    'older-copy': [None, [['publish', 'json'], ['set', [40, 6]], ['pay', 0, 30], ['apply', 0, None], ['restart'], ['pay', 0, 60],
                          ['apply', 0, None]]],
    'older-copy-packed': [[3, 2], [['publish', 'packed'], ['set', [8, 2]], ['pay', 0, 6], ['publish', 'json'], ['set', [8, 5]],
                                   ['pay', 1, 4], ['apply', 0, None], ['apply', 1, None], ['restart']]],
    'startup-receiving': [None, [['set', [40, 6]], ['pay', 0, 30], ['restart'], ['pay', 1, 2], ['restart']]],
    'startup-change': [None, [['set', [20, 30]], ['pay', 1, 25], ['restart'], ['pay', 0, 3], ['restart']]],
    'lowered-then-startup': [None, [['set', [40, 6]], ['pay', 0, 30], ['set', [20, 6]], ['restart']]],
    'newer-copy': [[3, 3], [['publish', 'json'], ['apply', 0, ['later', [6, 4]]], ['pay', 0, 5], ['publish', 'packed'],
                            ['apply', 0, None], ['apply', 1, ['earlier', [2, 2]]], ['restart']]],
    'newer-narrower-copy-then-startup': [None, [['set', [30, 6]], ['pay', 0, 25], ['publish', 'json'],
                                                ['apply', 0, ['later', [20, 6]]], ['restart']]],
    'both-chains': [None, [['set', [45, 12]], ['pay', 0, 33], ['pay', 1, 9], ['pay', 0, 2], ['publish', 'packed'], ['restart'],
                           ['apply', 0, None], ['pay', 0, 70], ['restart']]],
}


def gap_needed(paid):
    """smallest gap with which gap-limited discovery from index 0 reaches every paid index (harness arithmetic)"""
    need, prev = 0, -1
    for j in sorted(paid):
        need, prev = max(need, j - prev), j
    return need


def saved_plan(case):
    """(initial gaps, operations); every operation carries what the harness' own bookkeeping says afterwards: the local
    modified_on, the indices paid so far, a lower bound of the generated chain lengths, the gaps explicitly in force (None
    after a start-up chose them) and whether the saved settings are REQUIRED to regenerate every paid address."""
    r = random.Random(case['mseed'] ^ 0x5a7ed)
    scripted = case['script'] != 'random'
    if scripted:
        gaps0, steps = SAVED_SCRIPTS[case['script']]
        steps = [list(x) for x in steps]
    else:
        small = case['palette'] == 'small'
        pick = lambda c: r.choice([1, 2, 3, 3, 4, 5, 8] if small else [[20, 21, 25, 32, 40, 45], [6, 7, 10, 25, 30]][c])  # noqa: E731
        gaps0 = r.choice([None, [pick(0), pick(1)], [pick(0), pick(1)]])
        steps = [None] * case['steps']
    st = {'gm': list(gaps0 or DEFAULT_GAPS), 'stamp': 1000, 'required': True}
    paid = [set(), set()]
    lmin = list(st['gm'])
    copies, ops = [], []

    def suffices(g):
        return g is not None and all(g[c] >= gap_needed(paid[c]) for c in (0, 1))

    def draw():
        k = r.choice(['set', 'set', 'pay', 'pay', 'pay', 'publish', 'apply', 'apply', 'restart'])
        if k == 'apply' and not copies:
            k = 'publish'
        if k == 'publish' and ops and ops[-1]['op'] == 'publish':
            k = 'pay'
        if k == 'pay':
            c = r.choice([0, 0, 1])
            n = min(lmin[c], 90)
            g = st['gm'][c] if st['gm'] else 1
            cands = [j for j in (n - 1, max(0, n - g), r.randrange(n), r.randrange(n)) if j not in paid[c]]
            if cands:
                return ['pay', c, r.choice(cands)]
            k = 'set'

        def gaps():      # mostly wide enough for the payments so far, sometimes whatever the palette gives
            g = [pick(0), pick(1)]
            return g if r.random() < 0.3 else [max(g[c], gap_needed(paid[c])) for c in (0, 1)]
        if k == 'set':
            return ['set', gaps()]
        if k == 'publish':
            return ['publish', r.choice(['json', 'json', 'packed'])]
        if k == 'apply':
            narrow = [max(1, min(pick(c), gap_needed(paid[c]) - 1)) if paid[c] else pick(c) for c in (0, 1)]   # would lose a payment
            return ['apply', r.randrange(len(copies)), r.choice([None, None, ['later', gaps()], ['later', gaps()], ['earlier', narrow]])]
        return ['restart']

    for step in steps:
        step = step or draw()
        op = {'op': step[0], 'narrow': False}
        if step[0] == 'set':
            st['stamp'] += 1000
            st['gm'] = list(step[1])
            st['required'] = suffices(st['gm'])
            op.update(gaps=list(step[1]), why='account-set')
        elif step[0] == 'pay':
            c, j = step[1], step[2]
            assert j < lmin[c] and j not in paid[c], f'script {case["script"]}: m/{c}/{j} is not a fresh generated address'
            before = gap_needed(paid[c])
            paid[c].add(j)
            st['required'] = st['required'] and (gap_needed(paid[c]) <= before or suffices(st['gm']))
            op.update(c=c, j=j, why='payment')
        elif step[0] == 'publish':
            copies.append({'stamp': st['stamp'], 'gaps': st['gm'] and list(st['gm']), 'how': step[1]})
            op.update(copy=len(copies) - 1, how=step[1], why='export')
        elif step[0] == 'apply':
            copy = copies[step[1]]
            op.update(copy=step[1], how=copy['how'], copy_stamp=copy['stamp'], device2=None)
            theirs, their_stamp = copy['gaps'], copy['stamp']
            if step[2]:
                theirs = list(step[2][1])
                their_stamp = st['stamp'] + 500 if step[2][0] == 'later' else st['stamp'] - 1
                op['device2'] = {'when': step[2][0], 'gaps': theirs, 'stamp': their_stamp}
            if their_stamp > st['stamp']:
                st['stamp'], st['gm'] = their_stamp, list(theirs)
                st['required'] = suffices(st['gm'])
                op['why'] = 'sync-apply-of-newer-copy'
            else:        # not newer: nothing of it may replace the local settings
                op['why'] = 'sync-apply-of-older-copy' if their_stamp < st['stamp'] else 'sync-apply-of-equally-old-copy'
                op['narrow'] = st['required'] and theirs is not None and not suffices(theirs)
        elif step[0] == 'restart':
            st['gm'], st['required'] = None, True
            op.update(why='start-up', beyond_default=[gap_needed(paid[c]) > DEFAULT_GAPS[c] for c in (0, 1)])
        else:
            raise ValueError(step)
        if st['gm'] is not None:
            for c in (0, 1):
                lmin[c] = max(lmin[c], (max(paid[c]) + 1 if paid[c] else 0) + st['gm'][c])
        op.update(stamp=st['stamp'], required=st['required'], gm=st['gm'] and list(st['gm']), lmin=list(lmin),
                  paid=[sorted(paid[0]), sorted(paid[1])])
        ops.append(op)
    return gaps0, ops


def describe_saved(op):
    if op['op'] == 'set':
        return f'account_set receiving_gap={op["gaps"][0]} change_gap={op["gaps"][1]} (modified_on {op["stamp"]})'
    if op['op'] == 'pay':
        return f'payment to the generated address m/{op["c"]}/{op["j"]}'
    if op['op'] == 'publish':
        return f'wallet exported ({op["how"]}) as copy {op["copy"]} (modified_on {op["stamp"]})'
    if op['op'] == 'apply':
        d2 = op['device2']
        return (f'sync apply of copy {op["copy"]} (modified_on {op["copy_stamp"]}) ' +
                ('as exported' if not d2 else f'after a second device set the gaps {d2["gaps"]} with modified_on {d2["stamp"]}') +
                {'older': ': older than', 'equally-old': ': as old as', 'newer': ': newer than'}[op['why'][14:-5]] + ' the local account')
    return 'start-up (Account.save_max_gap as called by Ledger.start)'


class OneLedgerManager:
    """the one thing Wallet.merge() / Wallet.from_storage() ask of the wallet manager (harness side)"""
    def __init__(self, ledger):
        self.ledger = ledger

    def get_or_create_ledger(self, ledger_id):
        if ledger_id != self.ledger.get_id():
            raise ValueError(f'account of ledger {ledger_id!r} in a wallet of {self.ledger.get_id()!r}')
        return self.ledger


async def saved_transcript(lb, net, mnemonic, generator, ops):
    """the history on the REAL Wallet / Account / Ledger / Database; after every step the text Wallet.save() writes is loaded
    by Wallet.from_storage() on a fresh database and run through the discovery loop of a restored wallet."""
    import json
    w = lb.w
    L = lb.ledger_class(net)

    def new_ledger():
        return L({'db': w.Database(':memory:'), 'headers': w.Headers(':memory:')})

    async def chain_records(account):
        out = []
        for am in (account.receiving, account.change):
            recs = await am.get_address_records(order_by='n asc')
            out.append([[x['pubkey'].n, x['address'], bytes(x['pubkey'].pubkey_bytes).hex(), x['used_times']] for x in recs])
        return out

    async def restore(text, paid):
        ledger2 = new_ledger()
        await ledger2.db.open()
        try:
            wallet2 = w.Wallet.from_storage(w.WalletStorage(default=json.loads(text)), OneLedgerManager(ledger2))
            account2 = wallet2.accounts[0]
            # what subscribe_account / update_history do: generate, histories of the new addresses arrive, generate again
            pending, learned, settled = await account2.ensure_address_gap(), set(), True
            while pending:
                news = [a for a in pending if a in paid and a not in learned]
                for address in news:
                    await ledger2.db.set_address_history(address, 'a' * 64 + ':5:')
                learned.update(news)
                pending = await account2.ensure_address_gap()
                if pending and not news:      # nothing was learned since the gap was filled, yet more addresses appear
                    settled = False
                    break
            return {'accounts': len(wallet2.accounts), 'xpub': account2.public_key.extended_key_string(), 'settled': settled,
                    'chains': await chain_records(account2)}
        finally:
            await ledger2.db.close()

    ledger = new_ledger()
    await ledger.db.open()
    try:
        wallet, manager = w.Wallet(), OneLedgerManager(ledger)
        account = w.Account.from_dict(ledger, wallet, {'name': 'x', 'seed': mnemonic, 'address_generator': generator,
                                                       'modified_on': 1000})
        await account.ensure_address_gap()
        t = {'id': account.id, 'xpub': account.public_key.extended_key_string(), 'steps': []}
        copies, paid = [], set()
        for op in ops:
            step = {}
            t['steps'].append(step)
            if op['op'] == 'set':           # what jsonrpc_account_set does
                account.receiving.gap, account.change.gap = op['gaps']
                account.modified_on = op['stamp']
                wallet.save()
            elif op['op'] == 'pay':
                step['generated'] = any(x[1] == op['address'] for x in (await chain_records(account))[op['c']])
                if step['generated']:
                    await ledger.db.set_address_history(op['address'], 'a' * 64 + ':1:')
                    paid.add(op['address'])
            elif op['op'] == 'publish':     # jsonrpc_wallet_export / the data sync_apply hands to the server
                copies.append(wallet.to_json() if op['how'] == 'json' else wallet.pack(SYNC_PASSWORD).decode())
                continue
            elif op['op'] == 'apply':       # jsonrpc_sync_apply / jsonrpc_wallet_import
                data, password = copies[op['copy']], None if op['how'] == 'json' else SYNC_PASSWORD
                if op['device2']:
                    d = json.loads(data) if password is None else w.Wallet.unpack(password, data)
                    wallet_b = w.Wallet.from_storage(w.WalletStorage(default=d), OneLedgerManager(new_ledger()))
                    b = wallet_b.accounts[0]
                    b.receiving.gap, b.change.gap = op['device2']['gaps']
                    b.modified_on = op['device2']['stamp']
                    data = wallet_b.to_json() if password is None else wallet_b.pack(password).decode()
                added, merged = wallet.merge(manager, password, data)
                step['merge'] = [[x.id for x in added], [x.id for x in merged]]
                wallet.save()
            else:                           # Ledger.start: await asyncio.gather(*(a.save_max_gap() for a in self.accounts))
                await asyncio.gather(*(a.save_max_gap() for a in ledger.accounts))
            await account.ensure_address_gap()
            text = wallet.save()
            step['saved_generator'] = json.loads(text)['accounts'][0]['address_generator']
            step['live'] = await chain_records(account)
            step['restored'] = await restore(text, paid)
        return t
    finally:
        await ledger.db.close()


def check_saved_settings(rec, case):
    lb = Lbry.get()
    net = case['net']
    _, vprv, vpub, _, _ = NETS[net]
    mnemonic = make_mnemonic(lb, case['kind'], case['mseed'])
    gaps0, ops = saved_plan(case)
    generator = {} if gaps0 is None else {'name': 'deterministic-chain',
                                          'receiving': {'gap': gaps0[0], 'maximum_uses_per_address': 1},
                                          'change': {'gap': gaps0[1], 'maximum_uses_per_address': 1}}
    root = ref_account(mnemonic)
    history = [describe_saved(op) for op in ops]
    rec.case('saved' + repr((mnemonic, gaps0, net, history)),
             sample={'mnemonic': mnemonic, 'net': net, 'initial_gaps': gaps0 or DEFAULT_GAPS, 'history': history})
    witness = {'mnemonic': mnemonic, 'net': net, 'initial_generator': generator, 'script': case['script']}
    parents, rows = {}, {0: [], 1: []}

    def ref_chain(c, count):
        if c not in parents:
            parents[c] = root.neuter().ckd_pub(c)
        for n in range(len(rows[c]), count):
            node = parents[c].ckd_pub(n)
            rows[c].append([n, ref_address(net, node.pub_bytes), node.pub_bytes.hex()])
        return rows[c][:count]

    for op in ops:
        if op['op'] == 'pay':
            op['address'] = ref_chain(op['c'], op['j'] + 1)[op['j']][1]
    try:
        t = asyncio.run(saved_transcript(lb, net, mnemonic, generator, ops))
    except Exception as e:  # noqa
        import traceback
        rec.violation(f'C06/K6/saved-wallet/raises/{type(e).__name__}@history-of-one-wallet',
                      f'{type(e).__name__}: {e} running {history} on the account of {mnemonic!r}',
                      dict(witness, history=history, traceback=traceback.format_exc()[-1500:]))
        return
    ident, xpub = ref_address(net, root.pub_bytes), root.xpub(vprv, vpub)
    if t['id'] != ident or t['xpub'] != xpub:
        rec.violation('C06/K6/saved-wallet/account-root', f'account of {mnemonic!r}: id {t["id"]} xpub {t["xpub"]} != reference '
                      f'{ident} {xpub}', witness)
        return
    for i, (op, step) in enumerate(zip(ops, t['steps'])):
        if op['op'] == 'publish':
            continue
        why = op['why']
        w2 = dict(witness, step=i, operation=history[i], history=history[:i + 1], saved_address_generator=step['saved_generator'],
                  paid_indices={'receiving': op['paid'][0], 'change': op['paid'][1]})
        if op['op'] == 'pay' and not step['generated']:
            rec.violation('C06/K6/saved-wallet/live-chain/count',
                          f'step {i} ({history[i]}): the running account never generated m/{op["c"]}/{op["j"]} although the '
                          f'explicit gap settings and the earlier payments put it inside the gap', w2)
            return
        if op['op'] == 'apply' and step['merge'] != [[], [ident]]:
            rec.violation('C06/K6/saved-wallet/sync-copy-of-same-mnemonic-not-merged',
                          f'step {i} ({history[i]}): Wallet.merge added accounts {step["merge"][0]} and merged {step["merge"][1]}; '
                          f'the copy holds the one account {ident} of the same mnemonic', dict(w2, merge=step['merge']))
            return
        rec.hit('K6.saved.restore_checked')
        rec.hit('K6.saved.after.' + why)
        if step['restored']['accounts'] != 1 or step['restored']['xpub'] != xpub:
            rec.violation('C06/K6/saved-wallet/restored-account-root',
                          f'step {i} ({history[i]}): the saved wallet loads as {step["restored"]["accounts"]} account(s), first xpub '
                          f'{step["restored"]["xpub"]}; reference {xpub}', w2)
            return
        if not step['restored']['settled']:
            rec.violation('C06/K6/saved-wallet/restored-discovery-does-not-settle',
                          f'step {i} ({history[i]}): on the restored wallet ensure_address_gap returned new addresses again although no '
                          f'payment was learned since it last filled the gap', w2)
            return
        for where, chains in (('live', step['live']), ('restored', step['restored']['chains'])):
            for cname, c in (('receiving', 0), ('change', 1)):
                got = chains[c]
                want = ref_chain(c, len(got))
                if [x[:3] for x in got] != want:
                    rec.violation(f'C06/K6/saved-wallet/{where}-{cname}-chain/address',
                                  f'step {i} ({history[i]}): the {where} {cname} chain of {mnemonic!r} (n={[x[0] for x in got][:4]}.., '
                                  f'{len(got)} records) is not the hole-free reference chain m/{c}/0..{len(got) - 1}',
                                  dict(w2, chain=c, lbry=[x[:3] for x in got], reference=want))
                    return
                want_used = [j for j in op['paid'][c] if j < len(got)]
                if [x[0] for x in got if x[3] > 0] != want_used:
                    rec.violation(f'C06/K6/saved-wallet/{where}-{cname}-chain/record-fields',
                                  f'step {i} ({history[i]}): used {where} {cname} addresses n={[x[0] for x in got if x[3] > 0]}, '
                                  f'paid to n={want_used}', dict(w2, chain=c))
                    return
                if where == 'live' and len(got) < op['lmin'][c]:
                    rec.violation(f'C06/K6/saved-wallet/live-{cname}-chain/count',
                                  f'step {i} ({history[i]}): the running account has {len(got)} {cname} addresses; the explicit gap '
                                  f'settings and the payments to n={op["paid"][c]} ask for at least {op["lmin"][c]}',
                                  dict(w2, chain=c, records=len(got), at_least=op['lmin'][c]))
                    return
        lengths = [len(x) for x in step['restored']['chains']]
        missing = [[c, j] for c in (0, 1) for j in op['paid'][c] if j >= lengths[c]]
        if not op['required']:
            rec.log('K6.saved.gaps_lowered_by_choice_' + ('still_regenerates' if not missing else 'does_not_regenerate'))
            continue
        if op['narrow']:
            rec.hit('K6.saved.older_copy_too_narrow_checked')
        for c, cname in enumerate(('receiving', 'change')):
            if op['op'] == 'restart' and op['beyond_default'][c]:
                rec.hit('K6.saved.startup_beyond_default_gap.' + cname)
        if op['paid'][0] or op['paid'][1]:
            rec.hit('K6.saved.funded_regenerated_checked')
        if missing:
            c, j = missing[0]
            cname = ('receiving', 'change')[c]
            rec.violation(f'C06/K6/saved-wallet/paid-address-not-regenerated/after-{why}/{cname}',
                          f'step {i} ({history[i]}): the wallet saved afterwards holds the settings {step["saved_generator"]}; loaded on '
                          f'a fresh database the same mnemonic {mnemonic!r} regenerates m/{c}/0..{lengths[c] - 1} only, the paid '
                          f'address m/{c}/{j} ({ref_chain(c, j + 1)[j][1]}) is missing (paid {cname} n={op["paid"][c]})',
                          dict(w2, missing=missing, regenerated_lengths={'receiving': lengths[0], 'change': lengths[1]}))
            return
    rec.hit('K6.saved.history_checked')


# ------------------------------------------------------------------------------ K6: passphrase spellings
# composed (NFC) spellings; every piece changes under at least one of NFD / NFKC / NFKD
PW_PIECES = ['caf\u00e9', 'cr\u00e8me', 'na\u00efve', 'se\u00f1or', '\u00fcber', '\u00e5ngstr\u00f6m', 'vi\u1ec7t', '\u01d6ber',
             '\ud55c\uae00', '\u304c\u304e', '\uff50\uff41\uff53\uff53\uff11\uff12\uff13', '\ufb01n', 'x\u00b2', '\uff76\uff9e\uff77',
             'd\u00e9j\u00e0', 'pi\u00f1ata', '\u1e69un', 'z\u0142oty\u00b5']


def check_passphrase_forms(rec, lb, r, mn):
    """one passphrase, typed on systems that hand over another Unicode-equivalent form of the same text"""
    import unicodedata
    M = lb.mnemonic.Mnemonic
    pw = ' '.join(r.sample(PW_PIECES, r.choice([1, 2, 2, 3])) + r.choice([[], [], ['horse'], ['42']]))
    forms = {f: unicodedata.normalize(f, pw) for f in ('NFC', 'NFD', 'NFKC', 'NFKD')}
    rec.case('pwforms' + mn + '|' + pw, sample={'mnemonic': mn, 'passphrase': pw,
                                                'forms': {f: forms[f].encode('unicode_escape').decode() for f in forms}})
    witness = {'mnemonic': mn, 'passphrase_nfc': forms['NFC'], 'code_points': {f: [hex(ord(c)) for c in forms[f]] for f in forms}}
    try:
        base = bytes(M.mnemonic_to_seed(mn, forms['NFC']))
    except Exception as e:  # noqa
        rec.violation(f'C06/K6/raises/{type(e).__name__}@mnemonic_to_seed/unicode-passphrase',
                      f'{type(e).__name__}: {e} for passphrase {forms["NFC"]!r}', witness)
        return
    for f in ('NFD', r.choice(['NFKC', 'NFKD'])):
        if forms[f] == forms['NFC']:
            continue
        try:
            got = bytes(M.mnemonic_to_seed(mn, forms[f]))
        except Exception as e:  # noqa
            rec.violation(f'C06/K6/raises/{type(e).__name__}@mnemonic_to_seed/unicode-passphrase',
                          f'{type(e).__name__}: {e} for passphrase {forms[f]!r}', dict(witness, form=f))
            continue
        rec.hit('K6.passphrase_equivalent_checked')
        rec.hit('K6.passphrase_form.' + f)
        if got != base:
            rec.violation(f'C06/K6/same-passphrase-other-seed/{f.lower()}',
                          f'mnemonic_to_seed({mn!r}, passphrase) differs between the NFC spelling {forms["NFC"]!r} and the {f} '
                          f'spelling {forms[f].encode("unicode_escape").decode()!r} of the same passphrase: {base.hex()[:16]}.. != '
                          f'{got.hex()[:16]}..',
                          dict(witness, form=f, seed_nfc=base.hex(), seed_other=got.hex()))
            return
    # the account key of a password protected seed (hence every address) equally does not depend on the form
    f = r.choice([x for x in ('NFD', 'NFKC', 'NFKD') if forms[x] != forms['NFC']])
    net = r.choice(['main', 'main', 'regtest'])
    _, vprv, vpub, _, _ = NETS[net]
    try:
        want = R.master(base).xprv(vprv, vpub)
        got = lb.w.Account.get_private_key_from_seed(lb.ledger_class(net), mn, forms[f]).extended_key_string()
    except R.InvalidChild:
        return
    except Exception as e:  # noqa
        rec.violation(f'C06/K6/raises/{type(e).__name__}@get_private_key_from_seed/unicode-passphrase',
                      f'{type(e).__name__}: {e} for passphrase {forms[f]!r}', dict(witness, form=f))
        return
    rec.hit('K6.passphrase_account_root_checked')
    if got != want:
        rec.violation(f'C06/K6/same-passphrase-other-account-root/{f.lower()}',
                      f'account key of {mn!r} with the {f} spelling of passphrase {forms["NFC"]!r} is {got}; the master key of the seed '
                      f'stretched with its NFC spelling is {want}', dict(witness, form=f, lbry=got, reference=want))
        return
    # observed, not judged: capitals / white space inside a passphrase
    if r.random() < 0.5:
        return
    how, spelled = r.choice([('capitals', forms['NFC'].upper()), ('double-blank', forms['NFC'].replace(' ', '  ') + ' '),
                             ('surrounding-blanks', ' ' + forms['NFC'] + '\n')])
    try:
        rec.log('K6.passphrase_%s_%s' % (how, 'same_seed' if bytes(M.mnemonic_to_seed(mn, spelled)) == base else 'other_seed'))
    except Exception as e:  # noqa
        rec.log('K6.passphrase_%s_%s' % (how, type(e).__name__))


# ------------------------------------------------------------------------------ K7
def check_mnemonic_int(rec, m, i, boundary=False):
    rec.case(b'm%d' % i)
    try:
        words = m.mnemonic_encode(i)
        back = m.mnemonic_decode(words)
    except Exception as e:  # noqa
        rec.violation(f'C06/K7/raises/{type(e).__name__}', f'{type(e).__name__}: {e} for i={i}', {'i': str(i)})
        return
    rec.hit('K7.roundtrip_checked')
    if boundary:
        rec.hit('K7.boundary_checked')
    if back != i:
        n = 2048
        k = 0
        while n ** (k + 1) <= i:
            k += 1
        near = 'power-of-2048' if i == n ** k else ('below-power' if i + 4 > n ** (k + 1) else
                                                    ('above-power' if i - n ** k < 4 else 'interior'))
        rec.violation(f'C06/K7/roundtrip/{near}',
                      f'mnemonic_decode(mnemonic_encode({i})) = {back}; words = {words!r}',
                      {'i': str(i), 'back': str(back), 'words': words, 'digits': k + 1})


# ------------------------------------------------------------------------------ setup / execute
def shard_setup(rec, tier):
    n = R.self_check()
    rec.note('reference_self_check', f'BIP32 vectors 1-3: {n or 14} nodes (xprv+xpub, CKDpub where non-hardened), 7 invalid keys '
                                     f'of vector 5, kG for k=1..3, Base58Check samples')
    # K6 reference against the repository's own fixed account fixture (a public main-net vector)
    root = ref_account(FIXTURE_MNEMONIC)
    first = root.neuter().ckd_pub(0).ckd_pub(0)
    assert root.xprv() == FIXTURE_XPRV, 'reference account root differs from the repo fixture'
    assert ref_address('main', first.pub_bytes) == FIXTURE_FIRST_RECEIVING, 'reference first receiving address differs'


def execute(rec, case):
    lb = Lbry.get()
    fam = case['fam']
    if fam == 'path':
        run_path(rec, bytes.fromhex(case['seed']), [int(x) for x in case['path']], case['net'])
    elif fam == 'vectors':
        for vec in R.VECTORS:
            run_path(rec, bytes.fromhex(vec['seed']), [c[0] for c in vec['chain'][1:]], 'main', vector=vec['chain'])
        L = lb.ledger_class('main')
        for s in R.INVALID_XKEYS:     # observed, not judged (except the checksum one)
            try:
                lb.bip32.from_extended_key_string(L, s)
                verdict = 'accepted'
            except Exception as e:  # noqa
                verdict = 'rejected'
            if R.b58check_valid(s):
                rec.log('K3.bip32_vector5_invalid_key_' + verdict)
            else:
                rec.hit('K3.corrupt_rejected_checked')
                if verdict == 'accepted':
                    rec.violation('C06/K3/checksum-error-accepted/official-vector5', f'{s} accepted', {'s': s})
    elif fam == 'lz':
        # search (reference side only) for a seed whose master / child private key starts with a zero byte
        import hmac as _hmac
        r = random.Random(1000 + case['sub'])
        while True:
            seed = bytes(r.getrandbits(8) for _ in range(r.choice([16, 32, 64])))
            if case['where'] == 'master':
                if _hmac.new(b'Bitcoin seed', seed, hashlib.sha512).digest()[0] == 0:
                    run_path(rec, seed, [H if case['hard'] else 0, 1], 'main')
                    return
                continue
            node = R.master(seed)
            base = H if case['hard'] else 0
            pub = node.pub_bytes
            for i in range(base, base + 3000):
                data = (b'\0' + node.priv_bytes if i >= H else pub) + i.to_bytes(4, 'big')
                il = int.from_bytes(_hmac.new(node.c, data, hashlib.sha512).digest()[:32], 'big')
                if il < R.N and 0 < (il + node.k) % R.N < 2 ** 248:
                    run_path(rec, seed, [i, 0], 'main')
                    return
    elif fam == 'b58':
        r = random.Random(case['seed'])
        for _ in range(case['count']):
            check_payload(rec, lb, rand_payload(r), r, 8)
        if len(rec.samples) < 4:
            p = rand_payload(r)
            rec.samples.append({'base58check_payload': p.hex(), 'encoded': R.b58check_encode(p)})
    elif fam == 'b58fixed':
        r = random.Random(58)
        for p in [b'', b'\0', b'\0\0', b'\0' * 5, b'\0' * 21, b'\0' * 100, b'\x01', b'\0\x01', b'\xff' * 100, b'\0' * 99 + b'\x01',
                  bytes.fromhex('0062e907b15cbf27d5425399ebf6f0fb50ebb88f18'), b'\x55' + bytes(20), b'\0' + b'\xff' * 20]:
            check_payload(rec, lb, p, r, 60)
        for kind, s in [('empty', ''), ('all-ones', '1'), ('all-ones', '1111'), ('all-ones', '11111'), ('all-ones', '1' * 30),
                        ('short', '2'), ('short', 'z'), ('short', '3QJmnh'), ('short', '13QJmnh'), ('blank', ' '),
                        ('trailing-newline', R.b58check_encode(b'\x55' + bytes(20)) + '\n'),
                        ('leading-blank', ' ' + R.b58check_encode(b'\x55' + bytes(20)))]:
            rec.case('b58s' + s)
            check_b58_string(rec, lb, kind, s)
        # observed, not judged: raw decoder on all-"1" strings
        for k in (1, 2, 5):
            try:
                got = bytes(lb.Base58.decode('1' * k))
                rec.log('raw_decode_all_ones_%s' % ('ok' if got == bytes(k) else 'extra_zero_byte'))
            except Exception:  # noqa
                rec.log('raw_decode_all_ones_raises')
    elif fam == 'addr':
        r = random.Random(case['seed'])
        for _ in range(case['count']):
            k = r.randrange(10)
            h = bytes(20) if k == 0 else (b'\xff' * 20 if k == 1 else (bytes(r.choice([1, 2, 19])) + bytes(
                r.getrandbits(8) for _ in range(20)))[:20] if k == 2 else bytes(r.getrandbits(8) for _ in range(20)))
            check_address(rec, lb, r.choice(['main', 'main', 'test', 'regtest']), h, r, 10)
    elif fam == 'addrfixed':
        r = random.Random(5)
        for net in NETS:
            for h in (bytes(20), b'\xff' * 20, bytes(19) + b'\x01', b'\x01' + bytes(19), R.hash160(b'')):
                check_address(rec, lb, net, h, r, 120)
        L = lb.ledger_class('main')
        for ln in (0, 1, 19, 21, 32):     # right prefix + right checksum + wrong length: observed only
            a = R.b58check_encode(b'\x55' + bytes(range(ln)))
            rec.log(f'K5.wrong_length_{ln}_valid_checksum_' + addr_verdict(L, a).split(':')[0])
        rec.log('K5.empty_payload_' + addr_verdict(L, '3QJmnh').replace(':', '_'))
    elif fam == 'acct':
        check_account(rec, case)
    elif fam == 'shared':
        check_shared_ledger(rec, case)
    elif fam == 'saved':
        check_saved_settings(rec, case)
    elif fam == 'fixture_account':
        check_account(rec, {'fam': 'acct', 'mseed': 0, 'gaps': [20, 6], 'kind': 'words', 'net': 'main', 'use': 0},
                      mnemonic=FIXTURE_MNEMONIC)
        rec.hit('K6.fixture_checked')
    elif fam == 'stretch':
        r = random.Random(case['seed'])
        M = lb.mnemonic.Mnemonic
        for _ in range(case['count']):
            mn = make_mnemonic(lb, r.choice(['words', 'string']), r.getrandbits(40))
            pw = r.choice(['lbryum', 'torba', '', 'x' * r.randrange(1, 200), 'pass phrase'])
            rec.case('stretch' + mn + '|' + pw)
            if pw == '':
                continue     # the pbkdf2 package treats an empty salt specially; accounts always pass 'lbryum'
            want = hashlib.pbkdf2_hmac('sha512', mn.encode(), pw.encode(), 2048, 64)
            try:
                got = bytes(M.mnemonic_to_seed(mn, pw))
            except Exception as e:  # noqa
                rec.violation(f'C06/K6/raises/{type(e).__name__}@mnemonic_to_seed',
                              f'{type(e).__name__}: {e} for {mn!r}/{pw!r}', {'mnemonic': mn, 'passphrase': pw})
                continue
            rec.hit('K6.seed_stretch_checked')
            if got != want:
                rec.violation('C06/K6/seed-stretch', f'mnemonic_to_seed({mn!r}, {pw!r}) = {got.hex()} != PBKDF2-HMAC-SHA512 '
                              f'{want.hex()}', {'mnemonic': mn, 'passphrase': pw, 'lbry': got.hex(), 'reference': want.hex()})
                continue
            # the same mnemonic (the same words in the same order) typed or pasted differently: doubled blanks, tabs, line wraps,
            # surrounding blanks, capitals.  It must regenerate the same seed, hence the same addresses (seeded break C06-E)
            words = mn.split(' ')
            sep = lambda: r.choice([' ', '  ', '\t', '\n', ' \n', '\r\n', '   '])  # noqa: E731
            spelled = {
                'double-blank': '  '.join(words), 'tabs': '\t'.join(words), 'line-wrapped': '\n'.join(words),
                'trailing-newline': mn + '\n', 'leading-blank': ' ' + mn, 'surrounded': '  ' + mn + ' \n',
                'mixed-separators': ''.join(w + (sep() if i < len(words) - 1 else '') for i, w in enumerate(words)),
                'capitals': mn.upper(), 'title-case': mn.title() if mn.title().lower() == mn else mn.upper(),
            }
            for how in r.sample(sorted(spelled), 3):
                try:
                    got2 = bytes(M.mnemonic_to_seed(spelled[how], pw))
                except Exception as e:  # noqa
                    rec.violation(f'C06/K6/raises/{type(e).__name__}@mnemonic_to_seed/respelled', f'{type(e).__name__}: {e} for {spelled[how]!r}',
                                  {'mnemonic': spelled[how], 'passphrase': pw})
                    continue
                rec.hit('K6.respelled_mnemonic_checked')
                if got2 != want:
                    rec.violation(f'C06/K6/same-mnemonic-other-seed/{how}', f'mnemonic_to_seed({spelled[how]!r}) differs from the seed of the same words '
                                  f'separated by single blanks', {'mnemonic': mn, 'spelled': spelled[how], 'how': how, 'passphrase': pw})
        # a password protected seed: the account key is the BIP32 master of the seed stretched with that password
        mn = make_mnemonic(lb, 'words', r.getrandbits(40))
        pw = r.choice(['torba', 'pass phrase', 'x' * r.randrange(1, 200), 'correct horse battery staple', 'hunter2'])
        net = r.choice(['main', 'main', 'test', 'regtest'])
        _, vprv, vpub, _, _ = NETS[net]
        rec.case('pwacct' + mn + '|' + pw + net)
        try:
            want = R.master(hashlib.pbkdf2_hmac('sha512', mn.encode(), pw.encode(), 2048, 64)).xprv(vprv, vpub)
            got = lb.w.Account.get_private_key_from_seed(lb.ledger_class(net), mn, pw).extended_key_string()
        except R.InvalidChild:
            rec.log('K6.invalid_master_skipped')
        except Exception as e:  # noqa
            rec.violation(f'C06/K6/raises/{type(e).__name__}@get_private_key_from_seed',
                          f'{type(e).__name__}: {e} for {mn!r}/{pw!r}', {'mnemonic': mn, 'passphrase': pw})
        else:
            rec.hit('K6.password_account_root_checked')
            if got != want:
                rec.violation('C06/K6/password-protected-seed/account-root',
                              f'Account.get_private_key_from_seed({mn!r}, {pw!r}) on {net} = {got}, reference master of the stretched '
                              f'seed {want}', {'mnemonic': mn, 'passphrase': pw, 'net': net, 'lbry': got, 'reference': want})
        check_passphrase_forms(rec, lb, r, make_mnemonic(lb, r.choice(['words', 'words', 'string']), r.getrandbits(40)))
    elif fam in ('mnem_win', 'mnem_range', 'mnem_rand', 'mnem_fixed'):
        m = lb.mnemonic.Mnemonic('en')
        if len(m.words) != 2048 or len(set(m.words)) != 2048:
            rec.violation('C06/K7/word-list', f'English list has {len(m.words)} words, {len(set(m.words))} distinct', {})
            return
        if fam == 'mnem_win':
            c = 2048 ** case['k']
            for i in range(max(1, c - case['half']), c + case['half'] + 1):
                check_mnemonic_int(rec, m, i, boundary=True)
        elif fam == 'mnem_range':
            for i in range(case['lo'], case['hi'] + 1):
                check_mnemonic_int(rec, m, i)
        elif fam == 'mnem_rand':
            r = random.Random(case['seed'])
            for _ in range(case['count']):
                k = r.randrange(6)
                if k == 0:
                    i = 2048 ** r.randrange(1, 25) * r.randrange(1, 2048) + r.choice([0, 0, 1, 2047])   # zero digits inside
                elif k == 1:
                    i = 2 ** r.randrange(1, 265) + r.choice([-1, 0, 1])
                elif k == 2:
                    i = int(''.join(r.choice(['0' * 11, '1' * 11, format(r.getrandbits(11), '011b')])
                                    for _ in range(r.randrange(1, 25))), 2)
                else:
                    i = r.getrandbits(r.randrange(1, 265))
                i = min(max(i, 1), 2 ** 264)
                check_mnemonic_int(rec, m, i)
            if len(rec.samples) < 4:
                rec.samples.append({'mnemonic_int': str(i), 'words': m.mnemonic_encode(i)})
        else:
            for i in (1, 2047, 2048, 2049, 2 ** 132, 2 ** 264 - 1, 2 ** 264, 2048 ** 12 - 1, 2048 ** 12, 2048 ** 12 + 2047 * 2048):
                check_mnemonic_int(rec, m, i, boundary=True)
            for lang in ('es', 'ja', 'pt', 'zh'):   # observed only: the loader's module path for other lists
                try:
                    lb.mnemonic.Mnemonic(lang)
                    rec.log('K7.language_%s_loads' % lang)
                except Exception as e:  # noqa
                    rec.log('K7.language_%s_%s' % (lang, type(e).__name__))
    else:
        raise ValueError('unknown case family %r' % fam)

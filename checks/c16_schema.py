"""C16 - claim metadata and LBRY URLs are lossless.  [DIFF]

Real lbry.schema (Claim/Stream/Channel/Repost/Collection, Support, Purchase, URL) driven through
its public API, judged against
  * the values that were set (semantic comparison),
  * an independent protobuf wire reader (vlib/ref/pbwire.py, no google.protobuf, no lbry code)
    plus a plain ClaimMessage.FromString parse of the same bytes,
  * an independent recursive-descent parser of the LBRY URL grammar (vlib/ref/lbryurl.py).

Oracle clauses (DESIGN 4 C16):
  M1 from_bytes(to_bytes(x)).to_bytes() == to_bytes(x), messages equal, envelope layout
  M2 every accessor (on the assembled object and on the decoded object) equals what was set,
     and equals what the wire bytes show
  M3 legacy encodings (old JSON schemas, protobuf v1 signed/unsigned/certificate) decode and
     expose the recorded fields (6 recorded main-net fixtures + generated legacy claims)
  M4 valid URL: parts equal the reference parser's; str() is the same URL for canonical
     spellings and a fixed point otherwise
  M5 the library rejects exactly the strings the reference grammar rejects
  M6 re-assembly histories (stored claim copied through its wire format or kept, then update() again, 1..3 times,
     incl. file_path of a real scratch file): after every step M1 + M2 against the state the harness computed
     from its own assignments (a field keeps its value until a later step assigns or clears it), and nothing
     is left over from what a step replaced: the typed description (image/video/audio) is that of the file the
     claim points at now, a cleared fee reads as no fee
"""
import hashlib
import json
import os
import random
from binascii import unhexlify
from decimal import Decimal

from vlib import boot
from vlib.ref import lbryurl, pbwire

ID = 'C16'
LEVEL = 'exploration'
RULE = ('claims: seeded random field assignments (kind x update()/setters x unicode text classes x integer '
        'boundaries x 3 currencies x 0..N repeated items x signed/unsigned), distinct = distinct serialised bytes; '
        'update histories of stream claims: all (described file kind x next file kind x dimensions given x copy through '
        'wire format or in place x file name or real file) transitions plus seeded random 1..3-step histories over all '
        'update() fields incl. clear_* flags, judged after every step; '
        'URLs: grammar-generated valid URLs, each with every forbidden character inserted at every position '
        'incl. the end and a list of malformed modifiers, plus bounded-exhaustive enumeration of all strings '
        'over a small alphabet and a sweep of every BMP code point in 8 contexts; distinct = distinct string; '
        'non-trivial = every case (each is an independent input of a pure function)')
ASSUMPTIONS = [
    'grammar version = the one documented in lbry/schema/url.py and upstream test_url.py: "#"/":" claim id '
    '(1..40 lower-case hex), "$" bid position, no "*" sequence modifier, no query string; "*" is a name character',
    'amount_order is compared as a decimal string (the library returns str although annotated int): logged',
    'tags are stored normalised (lower-case, quotes removed, #!~ -> blank, blank runs collapsed, stripped, '
    'order-preserving de-duplication); only blank U+0020 is generated as whitespace',
    'zero latitude/longitude/fee and proto3 default values read back as unset: logged, not judged',
    'fee amounts are given as decimal strings / Decimal with <=8 (LBC, BTC) or <=2 (USD) decimals; coordinates '
    'as decimal strings with <=7 decimals; out-of-range integers may be rejected but must not be truncated',
    'claim id = hex of the byte-reversed hash (ClaimReference / Purchase / signing channel alike)',
    'plain protobuf parse = independent wire reader using the public field numbers of claim.proto, enum numbers '
    'mapped to names through the generated enum tables',
    'update histories: the stream type of a file is given by its extension (own table EXT_KIND; scratch files hold plain '
    'ASCII text, so content sniffing has nothing to recognise); width/height/duration describe the file they were given '
    'for: they stay while the claim keeps pointing at a file of that stream type and go when it points at a file of '
    'another type (what upstream test_update_file_type expects); fee address stays when only amount/currency change',
]
REQUIRED_HITS = [
    'M1.roundtrip_checked', 'M1.signed_checked', 'M1.unsigned_checked',
    'M2.set_view', 'M2.decoded_view', 'M2.wire_view',
    'M2.kind.stream', 'M2.kind.channel', 'M2.kind.repost', 'M2.kind.collection',
    'M2.support_checked', 'M2.purchase_checked', 'M2.fee.LBC', 'M2.fee.BTC', 'M2.fee.USD',
    'M3.fixture_checked', 'M3.generated_json_checked', 'M3.generated_v1_checked', 'M3.generated_zero_fee',
    'M4.valid_checked', 'M4.canonical_roundtrip', 'M4.fixed_point',
    'M5.invalid_checked', 'M5.insert_end_checked', 'M5.malformed_modifier_checked',
    'M6.step_checked', 'M6.media_exact_checked', 'M6.type_changed_nothing_typed_written', 'M6.file_path_checked',
]


def plan(tier):
    return {'shards': 16, 'budget_s': 40 if tier == 'quick' else 700}


# ======================================================================================
# case generation
# ======================================================================================
ENUM_ALPHABET_QUICK = ['a', 'f', 'g', '@', '/', ':', '#', '$', '0', '1', '\n']
ENUM_ALPHABET_THOROUGH = ['a', 'f', 'G', '@', '/', ':', '#', '$', '0', '1', '\n', '*']
CP_TEMPLATES = ['lbry://{}', 'a{}b', '@{}', 'a{}', '{}a', '@a/b{}', 'a:1{}', 'a$1{}']


def enum_total(nalpha, maxlen):
    return sum(nalpha ** k for k in range(maxlen + 1))


def gen_cases(rng, tier, shard, nshards):
    quick = tier == 'quick'
    if shard == 0:
        yield {'fam': 'legacy_fixed'}
        yield {'fam': 'url_fixed'}
        yield {'fam': 'range'}
        yield {'fam': 'history_fixed'}
    # bounded-exhaustive URL enumeration, strided over the shards
    maxlen = 5 if quick else 6
    nalpha = len(ENUM_ALPHABET_QUICK if quick else ENUM_ALPHABET_THOROUGH)
    total = enum_total(nalpha, maxlen)
    chunk = 20_000
    first = shard
    while first < total:
        yield {'fam': 'url_enum', 'tier': tier, 'first': first, 'stride': nshards, 'count': chunk}
        first += chunk * nshards
    # code-point sweep
    top = 0x10000 if quick else 0x110000
    step = 0x400
    mine = [lo for idx, lo in enumerate(range(0, top, step)) if idx % nshards == shard]
    for lo in mine:
        yield {'fam': 'url_cp', 'tier': tier, 'lo': lo, 'hi': min(top, lo + step), 'last': lo == mine[-1]}
    nclaim = 24 if quick else 700
    nurl = 15 if quick else 300
    nleg = 3 if quick else 60
    nsp = 2 if quick else 40
    nhist = 3 if quick else 120
    # interleave the families so that a budget stop still leaves every clause observed
    for j in range(max(nclaim, nurl, nleg, nsp)):
        if j < nclaim:
            yield {'fam': 'claim', 'seed': rng.getrandbits(40), 'count': 50}
        if j < nhist:
            yield {'fam': 'history', 'seed': rng.getrandbits(40), 'count': 20}
        if j < nurl:
            yield {'fam': 'url_gen', 'seed': rng.getrandbits(40), 'count': 10}
        if j < nleg:
            yield {'fam': 'legacy_gen', 'seed': rng.getrandbits(40), 'count': 20}
        if j < nsp:
            yield {'fam': 'support_purchase', 'seed': rng.getrandbits(40), 'count': 50}


# ======================================================================================
# small independent helpers (no lbry code)
# ======================================================================================
B58 = '123456789ABCDEFGHJKLMNPQRSTUVWXYZabcdefghijkmnopqrstuvwxyz'


def b58enc(b: bytes) -> str:
    n = int.from_bytes(b, 'big')
    s = ''
    while n:
        n, m = divmod(n, 58)
        s = B58[m] + s
    pad = len(b) - len(b.lstrip(b'\0'))
    return '1' * pad + s


def make_address(r, version):
    payload = bytes([version]) + r.randbytes(20)
    raw = payload + hashlib.sha256(hashlib.sha256(payload).digest()).digest()[:4]
    return b58enc(raw), raw


def fmt_units(n, places, style=0):
    """exact decimal spelling of n / 10**places."""
    q, rem = divmod(n, 10 ** places)
    frac = ('%0*d' % (places, rem))
    if style == 0:
        frac = frac.rstrip('0')
        return str(q) + ('.' + frac if frac else '')
    if style == 1:
        return str(q) + '.' + frac
    frac = frac.rstrip('0') or '0'
    return str(q) + '.' + frac


def ref_norm_tag(t):
    t = t.lower().replace("'", '')
    for c in '#!~':
        t = t.replace(c, ' ')
    out, run = [], 0
    for c in t:
        if c == ' ':
            run += 1
            if run == 1:
                out.append(c)
        else:
            run = 0
            out.append(c)
    return ''.join(out).strip(' ')


def ref_tags(raw):
    out = []
    for t in raw:
        n = ref_norm_tag(t)
        if n and n not in out:
            out.append(n)
    return out


def charclass(c):
    o = ord(c)
    if c in '\n\r\t ':
        return 'U+%04X' % o
    if o <= 0x20:
        return 'C0-control'
    if 0xD800 <= o <= 0xDFFF:
        return 'surrogate'
    if o in (0xFFFE, 0xFFFF):
        return 'nonchar'
    if c in lbryurl.FORBIDDEN_PUNCT:
        return 'punct-U+%04X' % o
    return 'allowed-char'


def classify_invalid(u, reason):
    """stable input class of a string the reference rejects (used in mechanism keys)."""
    if len(u) >= 2 and charclass(u[-1]) != 'allowed-char' and lbryurl.is_valid(u[:-1]):
        return 'valid+trailing:' + charclass(u[-1])
    if len(u) >= 2 and charclass(u[0]) != 'allowed-char' and lbryurl.is_valid(u[1:]) and not u[1:].startswith('lbry://'):
        return 'leading:' + charclass(u[0]) + '+valid'
    return 'reason:' + reason.replace(' ', '-')


def shard_setup(rec, tier):
    n = lbryurl.self_check() + pbwire.self_check()
    g = bytes.fromhex('00' + '62e907b15cbf27d5425399ebf6f0fb50ebb88f18')
    g += hashlib.sha256(hashlib.sha256(g).digest()).digest()[:4]
    if b58enc(g) != '1A1zP1eP5QGefi2DMPTfTL5SLmv7DivfNa':
        raise AssertionError('base58 reference disagrees with the Bitcoin genesis address vector')
    if b58enc(bytes.fromhex('553f00bc139bbf40de425f94d51fffb34c1bea6d9171cd374c')) != 'bJUQ9MxS9N6M29zsA5GTpVSDzsnPjMBBX9':
        raise AssertionError('base58 reference disagrees with the recorded main-net fee address')
    if ref_tags(['Anime', 'anime', ' aNiMe', 'maNGA ', "Rock'n'Roll", 'a #b', '#']) != ['anime', 'manga', 'rocknroll', 'a b']:
        raise AssertionError('tag reference')
    if fmt_units(110000000, 8) != '1.1' or fmt_units(5, 8, 1) != '0.00000005' or fmt_units(300, 2, 2) != '3.0':
        raise AssertionError('fmt_units')
    rec.note('reference_vectors_checked', n + 5)


# ======================================================================================
# URLs (M4, M5)
# ======================================================================================
def _seg(seg):
    if seg is None:
        return None
    ao = seg.amount_order
    return (seg.name, seg.claim_id, None if ao is None else str(ao))


def judge_url(rec, URL, u, gen_cls=None):
    """one string through URL.parse and through the reference. returns True iff reference-valid."""
    lit = {'fam': 'url_lit', 'u': u, 'cls': gen_cls}
    try:
        refp = lbryurl.parse(u)
        reason = None
    except lbryurl.Invalid as e:
        refp, reason = None, e.reason
    try:
        got, raised = URL.parse(u), None
    except ValueError as e:
        got, raised = None, e
    except Exception as e:  # noqa
        rec.violation(f'C16/M5/parse-raises/{type(e).__name__}', f'URL.parse({u!r}) raised {e!r}', {'u': u}, case=lit)
        return refp is not None
    if refp is None:
        rec.hit('M5.invalid_checked')
        if raised is None:
            cls = classify_invalid(u, reason)
            rec.violation(f'C16/M5/accepts-invalid/{cls}',
                          f'URL.parse({u!r}) accepted -> {str(got)!r}; the grammar rejects it ({reason})',
                          {'u': u, 'reference_reason': reason, 'lib_parts': [_seg(got.channel), _seg(got.stream)],
                           'generator_class': gen_cls}, case=lit)
        return False
    rec.hit('M4.valid_checked')
    shape = ('channel+stream' if refp['channel'] and refp['stream'] else 'channel' if refp['channel'] else 'stream')
    rec.hit('M4.shape.' + shape)
    if raised is not None:
        rec.violation(f'C16/M5/rejects-valid/{shape}', f'URL.parse({u!r}) rejected a URL the grammar allows',
                      {'u': u, 'reference': refp}, case=lit)
        return True
    lib = (_seg(got.channel), _seg(got.stream))
    if lib != (refp['channel'], refp['stream']):
        rec.violation(f'C16/M4/parts-differ/{shape}', f'URL.parse({u!r}) parts {lib} != reference {refp}',
                      {'u': u, 'lib': lib, 'reference': refp}, case=lit)
        return True
    for seg in (got.channel, got.stream):
        if seg is not None and seg.amount_order is not None and not isinstance(seg.amount_order, int):
            rec.log('M4.amount_order_is_' + type(seg.amount_order).__name__)
    try:
        s = str(got)
    except Exception as e:  # noqa
        rec.violation(f'C16/M4/str-raises/{type(e).__name__}', f'str(URL.parse({u!r})) raised {e!r}', {'u': u}, case=lit)
        return True
    canon = lbryurl.canonical(refp)
    if u == canon:
        rec.hit('M4.canonical_roundtrip')
        if s != u:
            rec.violation(f'C16/M4/print-differs/canonical-{shape}', f'str(URL.parse({u!r})) = {s!r}',
                          {'u': u, 'printed': s}, case=lit)
    else:
        rec.hit('M4.fixed_point')
        if s != canon:
            rec.log('M4.noncanonical_print_differs_from_reference_canonical')
        try:
            again = URL.parse(s)
            lib2 = (_seg(again.channel), _seg(again.stream))
            s2 = str(again)
        except Exception as e:  # noqa
            rec.violation(f'C16/M4/printed-url-unparseable/{shape}', f'str(URL.parse({u!r})) = {s!r} does not parse: {e!r}',
                          {'u': u, 'printed': s}, case=lit)
            return True
        if lib2 != lib or s2 != s:
            rec.violation(f'C16/M4/not-a-fixed-point/{shape}', f'{u!r} -> {s!r} -> parts {lib2}, printed {s2!r}',
                          {'u': u, 'printed': s, 'parts': lib, 'parts_again': lib2, 'printed_again': s2}, case=lit)
    return True


NAME_POOLS = [
    'abcdefghijklmnopqrstuvwxyz', 'ABCDEFXYZ', '0123456789', 'abcdef0123456789', "-_.+*!'(),",
    '\u00e9\u00df\u00f1\u00c5\u0416\u0436\u03a9\u05d0\u0627', '\u4e2d\u6587\u3042\u30a2\ud55c',
    '\U0001f600\U0001f4a9\U00010000\U0010ffff\U0001f1fa', '\u0301\u200b\u200d\ufeff\u00a0\u0085\u2028\u2029\u3000',
    '!\u007f\u0080\ud7ff\ue000\ufffd\u0100',
]
HEXNAMES = ['abc123', 'deadbeef', 'f', '0', '1', 'a1', 'lbry', 'lbry:', 'cafe']
INSERT_CHARS = list(lbryurl.FORBIDDEN_PUNCT) + ['\n', '\r', '\t', ' ', '\x00', '\x01', '\x0b', '\x0c', '\x1f', '\x1c',
                                                '\ud800', '\udbff', '\udfff', '\ufffe', '\uffff', '\r\n']


def gen_name(r):
    k = r.randrange(24)
    if k == 0:
        return r.choice([h for h in HEXNAMES if ':' not in h])
    if k == 1:
        return ''.join(r.choice(NAME_POOLS[r.randrange(len(NAME_POOLS))]) for _ in range(r.choice([1, 2, 3])))
    if k == 2:
        return ''.join(r.choice(r.choice(NAME_POOLS)) for _ in range(r.choice([60, 255, 300])))
    pool = r.choice(NAME_POOLS[:4] + NAME_POOLS)
    return ''.join(r.choice(pool) for _ in range(r.randrange(1, 13)))


def gen_modifier(r):
    k = r.randrange(8)
    if k <= 2:
        return ''
    if k <= 5:
        n = r.choice([1, 1, 2, 3, 8, 39, 40, 40, r.randrange(1, 41)])
        return r.choice(':#') + ''.join(r.choice('0123456789abcdef') for _ in range(n))
    n = r.choice([1, 2, 9, 10, 11, 99, 100, 2 ** 31 - 1, 2 ** 31, 2 ** 32, 2 ** 63, 2 ** 64, 10 ** 30, r.randrange(1, 10 ** 6)])
    return '$' + str(n)


def gen_valid_url(r):
    shape = r.choice(['stream', 'stream', 'channel', 'both', 'both'])
    scheme = r.choice(['lbry://', 'lbry://', ''])
    if shape == 'stream':
        body = gen_name(r) + gen_modifier(r)
    elif shape == 'channel':
        body = '@' + gen_name(r) + gen_modifier(r)
    else:
        body = '@' + gen_name(r) + gen_modifier(r) + '/' + gen_name(r) + gen_modifier(r)
    return scheme + body


def malformed_modifiers(r, base_name):
    h41 = ''.join(r.choice('0123456789abcdef') for _ in range(41))
    h40 = h41[:40]
    mods = ['#', ':', '$', '#g', ':x', '#G', ':ABCDEF', '#0x12', ': 1', '#-1', ':' + h41, '#' + h41, ':' + h41 + 'a',
            ':' + h40 + 'G', '$0', '$01', '$00', '$-1', '$+1', '$1.0', '$1a', '$a', '$\u0661', '$\uff11', ':\uff41', ':\u0661',
            '$1$2', ':ab:cd', '#ab#cd', ':ab$1', '$1:ab', '$1#ab', '#ab:cd', ':ab/', ':ab//x', '$1/', '*', ':ab?x=1', '$1?x',
            ':ab ', '$1 ', ':ab\n', '$1\n', '#' + h40 + '\n', ':ab\r', ':ab\r\n', '$1\x0b', '$1\x0c', ':ab\x85', ':ab\u2028']
    out = []
    for m in mods:
        out.append(('modifier:' + m[:1], base_name + m))
    return out


def structure_negatives(name):
    return ['', 'lbry://', 'lbry:///', 'lbry://@', '@', '@/' + name, '@@' + name, name + '/' + name, name + '/', '/' + name,
            '@' + name + '/', '@' + name + '//' + name, '@' + name + '/' + name + '/' + name, '@' + name + '/@' + name,
            'lbry://lbry://' + name, 'LBRY://' + name, 'lbry:/' + name, 'lbry//' + name, 'x/lbry://' + name, ' lbry://' + name,
            'lbry://' + name + ' ', name + '@', '\n' + name, name + '\n', name + '\n\n', 'lbry://@' + name + '\n',
            'lbry://@' + name + '/' + name + '\n', 'lbry://' + name + '\r', 'lbry://' + name + '\x85']


def run_url_gen(rec, URL, seed, count):
    r = random.Random(seed)
    for _ in range(count):
        if rec.out_of_time():
            return
        u = gen_valid_url(r)
        rec.case('u' + u, sample={'url': u} if r.random() < 0.02 else None)
        if not judge_url(rec, URL, u, 'generated-valid'):
            raise AssertionError(f'harness: generator produced a URL its own reference rejects: {u!r}')
        # one forbidden character inserted at EVERY position, including the end
        positions = range(len(u) + 1)
        if len(u) > 48:
            positions = sorted(set(range(8)) | set(range(len(u) - 7, len(u) + 1)) | set(r.sample(range(len(u) + 1), 16)))
            rec.hit('M5.long_url_positions_sampled')
        else:
            rec.hit('M5.every_position_covered')
        for p in positions:
            for c in INSERT_CHARS:
                v = u[:p] + c + u[p:]
                rec.case('u' + v)
                where = 'end' if p == len(u) else 'start' if p == 0 else 'inside'
                judge_url(rec, URL, v, f'insert:{charclass(c[0])}@{where}')
                rec.hit('M5.insert_' + where + '_checked')
        # one character replaced by a forbidden one (sampled positions)
        for p in r.sample(range(len(u)), min(len(u), 6)):
            c = r.choice(INSERT_CHARS)
            v = u[:p] + c + u[p + 1:]
            rec.case('u' + v)
            judge_url(rec, URL, v, 'replace:' + charclass(c[0]))
        name = gen_name(r)
        for prefix in ('lbry://', '', 'lbry://@', '@x/'):
            for cls, v in malformed_modifiers(r, prefix + name):
                rec.case('u' + v)
                judge_url(rec, URL, v, cls)
                rec.hit('M5.malformed_modifier_checked')
        for v in structure_negatives(name):
            rec.case('u' + v)
            judge_url(rec, URL, v, 'structure')


def enum_string(alphabet, idx):
    """idx-th string in length-then-lexicographic order over alphabet."""
    n = len(alphabet)
    ln = 0
    while idx >= n ** ln:
        idx -= n ** ln
        ln += 1
    out = []
    for _ in range(ln):
        idx, d = divmod(idx, n)
        out.append(alphabet[d])
    return ''.join(reversed(out))


def enum_key(tier):
    quick = tier == 'quick'
    return (f'urls_all_strings_len<={5 if quick else 6}_over_'
            f'{len(ENUM_ALPHABET_QUICK if quick else ENUM_ALPHABET_THOROUGH)}_chars_with_and_without_scheme')


def cp_key(tier):
    return 'urls_every_BMP_code_point_in_8_contexts' if tier == 'quick' else 'urls_every_code_point_U+0000..U+10FFFF_in_8_contexts'


def shard_finish(rec, tier):
    # a sub-space is reported exhaustive only if no shard had to stop early
    if rec.notes.get('stopped_on_budget'):
        rec.log('shard_stopped_on_budget')
        for k in (enum_key(tier), cp_key(tier)):
            if not rec.hits.get('done.' + k):
                rec.exhaustive[k] = False


def run_url_enum(rec, URL, case):
    quick = case['tier'] == 'quick'
    alphabet = ENUM_ALPHABET_QUICK if quick else ENUM_ALPHABET_THOROUGH
    maxlen = 5 if quick else 6
    total = enum_total(len(alphabet), maxlen)
    key = enum_key(case['tier'])
    i, done = case['first'], 0
    complete = True
    while i < total and done < case['count']:
        if done % 2000 == 0 and rec.out_of_time():
            complete = False
            break
        s = enum_string(alphabet, i)
        for u in (s, 'lbry://' + s):
            rec.case('u' + u)
            judge_url(rec, URL, u, 'enumerated')
        rec.hit('M45.enumerated')
        i += case['stride']
        done += 1
    rec.exhaustive[key] = rec.exhaustive.get(key, True) and complete
    if complete and i >= total:
        rec.hit('done.' + key)


def run_url_cp(rec, URL, case):
    key = cp_key(case.get('tier', 'quick'))
    for o in range(case['lo'], case['hi']):
        c = chr(o)
        for t in CP_TEMPLATES:
            u = t.format(c)
            rec.case('u' + u)
            judge_url(rec, URL, u, 'codepoint:' + charclass(c))
        rec.hit('M45.codepoint_swept')
    rec.exhaustive[key] = rec.exhaustive.get(key, True)
    if case.get('last'):
        rec.hit('done.' + key)


URL_FIXED = lbryurl.INVALID_VECTORS + [v[0] for v in lbryurl.VALID_VECTORS] + [
    'lbry://foo\n', 'foo\n', '@a/b\n', 'a:1\n', 'a$1\n', 'test*1', 'lbry://@test:1/stuff#2', 'lbry://test:3$1',
    'lbry://abc:0x123', 'lbry://@test1#ABCDEF/fakepath', 'lbry://@test1$1/fakepath?arg1&arg2&arg3',
]


# ======================================================================================
# claims (M1, M2): spec generation
# ======================================================================================
U32 = [0, 1, 2, 255, 65535, 2 ** 31 - 1, 2 ** 31, 2 ** 31 + 1, 2 ** 32 - 1]
U64 = [0, 1, 2 ** 31 - 1, 2 ** 31 + 1, 2 ** 32 - 1, 2 ** 32, 2 ** 53 + 1, 2 ** 63 - 1, 2 ** 63, 2 ** 64 - 1]
I64 = [0, 1, 2 ** 31 - 1, 2 ** 31, 2 ** 31 + 1, 2 ** 32 - 1, 2 ** 63 - 1, -1, -2 ** 63, 1500000000]
TEXT_POOLS = [
    'abcdefghijklmnopqrstuvwxyz ABCDEFGHIJKLMNOPQRSTUVWXYZ0123456789 .,;:!?-_/\\"\'()[]{}<>@#$%^&*+=|~`',
    '\u00e9\u00df\u00f1\u00c5\u00d8\u0416\u0436\u03a9\u03c9\u05d0\u0627\u0644 ',
    '\u4e2d\u6587\u65e5\u672c\u3042\u30a2\ud55c\uae00',
    '\U0001f600\U0001f4a9\U0001f1fa\U0001f1f8\u2764\ufe0f\U00010000\U0010ffff',
    '\x00\x01\n\r\t\x7f\x80\u0085\u00a0\u0301\u200b\u200d\u2028\u2029\ufeff\u202e',
    '\u07ff\u0800\ud7ff\ue000\ufffd\ufffe\uffff\U00010000\U0010fffe',
]
EXT_KIND = {'.mp4': 'video', '.avi': 'video', '.mkv': 'video', '.mov': 'video', '.mp3': 'audio', '.wav': 'audio',
            '.flac': 'audio', '.png': 'image', '.jpg': 'image', '.gif': 'image', '.pdf': 'document', '.txt': 'document',
            '.zip': 'binary'}
CURRENCY_NUM = {'LBC': 1, 'BTC': 2, 'USD': 3}       # claim.proto Fee.Currency


def gen_text(r, colon_free=False):
    k = r.randrange(14)
    if k == 0:
        s = ''
    elif k == 1:
        s = ''.join(r.choice(r.choice(TEXT_POOLS)) for _ in range(r.choice([1000, 3000, 6000])))
    elif k <= 6:
        pool = TEXT_POOLS[k - 1]
        s = ''.join(r.choice(pool) for _ in range(r.randrange(1, 30)))
    elif k == 7:
        s = ''.join(r.choice(r.choice(TEXT_POOLS)) for _ in range(r.randrange(1, 40)))
    else:
        s = ' '.join(''.join(r.choice(TEXT_POOLS[0][:26]) for _ in range(r.randrange(1, 9))) for _ in range(r.randrange(1, 6)))
    if colon_free:
        s = s.replace(':', '-')
    return s


def gen_hex(r, nbytes):
    k = r.randrange(8)
    if k == 0:
        return '00' * nbytes
    if k == 1:
        return 'ff' * nbytes
    if k == 2:
        return '00' + r.randbytes(nbytes - 2).hex() + '00'
    return r.randbytes(nbytes).hex()


def gen_claim_id(r):
    return gen_hex(r, 20) if r.random() < 0.9 else gen_hex(r, r.choice([2, 3, 4, 10, 19]))


def gen_count(r):
    return r.choice([0, 0, 1, 1, 2, 3, 5, 12, 40])


def gen_tag(r):
    k = r.randrange(8)
    words = ['Anime', 'anime', ' aNiMe', 'maNGA ', "Rock'n'Roll", 'sci-fi', 'C#', 'c', 'news!', '~tilde~', 'a  b', 'A   B',
             '#', "'", ' ', '', 'MATURE', 'mature', '\u00c9t\u00e9', '\u00e9t\u00e9', '\u0416\u0436', '\u4e2d\u6587',
             '\U0001f600', 'foo_bar', 'x' * 300, 'Stra\u00dfe', 'hello world', 'Hello  World!']
    if k <= 4:
        return r.choice(words)
    pool = 'abcXYZ019 #!~\'-_\u00e9\u00c9\u0416'
    return ''.join(r.choice(pool) for _ in range(r.randrange(1, 12)))


def gen_language(r, tables):
    lang = r.choice(tables['lang'])
    k = r.randrange(10)
    script = region = None
    if k in (3, 4, 7, 8):
        script = r.choice(tables['script'])
    if k in (5, 6, 7, 8, 9):
        region = r.choice(tables['region3']) if r.random() < 0.25 else r.choice(tables['country2'])
    return {'language': lang, 'script': script, 'region': region, 'how': r.choice(['langtag', 'langtag', 'parts'])}


def gen_coord(r, limit):
    k = r.randrange(10)
    if k == 0:
        units = r.choice([limit * 10 ** 7, -limit * 10 ** 7, 1, -1, 10 ** 7, -10 ** 7, limit * 10 ** 7 - 1])
    elif k == 1:
        units = 0
    else:
        units = r.randrange(-limit * 10 ** 7, limit * 10 ** 7 + 1)
    s = fmt_units(abs(units), 7, r.choice([0, 0, 1, 2]))
    return ('-' if units < 0 else '') + s, units


def gen_location(r, tables):
    form = r.choice(['dict', 'json', 'str', 'str', 'attrs'])
    loc = {'form': form}
    if r.random() < 0.75:
        loc['country'] = r.choice(tables['country2']) if r.random() < 0.85 else 'R' + r.choice(tables['region3'])
    for f in ('state', 'city', 'code'):
        if r.random() < 0.5:
            loc[f] = gen_text(r, colon_free=(form == 'str'))
            if len(loc[f]) > 500:
                loc[f] = loc[f][:500]
    if r.random() < 0.5:
        loc['latitude'], loc['lat_units'] = gen_coord(r, 90)
        loc['longitude'], loc['long_units'] = gen_coord(r, 180)
    elif r.random() < 0.2:
        loc['latitude'], loc['lat_units'] = gen_coord(r, 90)
    return loc


def gen_fee(r, mode):
    cur = r.choice(['LBC', 'BTC', 'USD'])
    places = 2 if cur == 'USD' else 8
    k = r.randrange(10)
    if k <= 2:
        units = r.choice([1, 10 ** places - 1, 10 ** places, 10 ** places + 1, 2 ** 31 - 1, 2 ** 31, 2 ** 32 - 1, 2 ** 32,
                          2 ** 53 + 1, 2 ** 63 - 1, 2 ** 63, 2 ** 64 - 1, 29 * 10 ** (places - 2), 57 * 10 ** (places - 2)])
    elif k <= 5:
        units = r.randrange(1, 10 ** (places + 4))
    elif k == 6:
        units = r.randrange(1, 2 ** 64)
    else:
        units = r.randrange(1, 10 ** 5) * 10 ** (places - 2)     # "x.yz" amounts people type
    fee = {'currency': cur, 'units': units, 'amount': fmt_units(units, places, r.choice([0, 0, 1, 2]))}
    if mode == 'update':
        fee['currency_spelling'] = r.choice([cur, cur.lower(), cur.capitalize()])
        fee['via'] = 'update'
    else:
        fee['via'] = r.choice(['decimal', 'decimal', 'int'])
    if r.random() < 0.7:
        version = r.choice([0x55, 0x55, 0x55, 0x7a, 0x6f, 0x05]) if r.random() < 0.95 else 0
        fee['address'], raw = make_address(r, version)
        fee['address_hex'] = raw.hex()
        fee['address_via'] = r.choice(['str', 'str', 'bytes']) if mode == 'setters' else 'str'
    return fee


def gen_claim_spec(r, tables, kind=None, mode=None):
    k, m = r.choice(['stream'] * 4 + ['channel'] * 2 + ['repost', 'collection']), r.choice(['update', 'setters'])
    kind, mode = kind or k, mode or m       # (histories fix both; the random draws stay the same)
    spec = {'kind': kind, 'mode': mode}

    def opt(name, fn, p=0.7):
        if r.random() < p:
            spec[name] = fn()
    opt('title', lambda: gen_text(r))
    opt('description', lambda: gen_text(r))
    opt('thumbnail_url', lambda: gen_text(r), 0.5)
    if r.random() < 0.7:
        spec['tags'] = [gen_tag(r) for _ in range(gen_count(r))]
        if mode == 'update' and len(spec['tags']) == 1 and r.random() < 0.5:
            spec['tags_as_str'] = True
    if r.random() < 0.7:
        spec['languages'] = [gen_language(r, tables) for _ in range(gen_count(r))]
    if r.random() < 0.6:
        spec['locations'] = [gen_location(r, tables) for _ in range(min(gen_count(r), 12))]
    if kind == 'stream':
        opt('author', lambda: gen_text(r), 0.5)
        opt('license', lambda: gen_text(r), 0.5)
        opt('license_url', lambda: gen_text(r), 0.4)
        opt('release_time', lambda: r.choice(I64 + [r.randrange(0, 2 ** 33)]), 0.6)
        if r.random() < 0.7:
            spec['fee'] = gen_fee(r, mode)
        if r.random() < 0.8:
            if r.random() < 0.8:
                spec['sd_hash'] = gen_hex(r, 48)
            else:
                spec['bt_infohash'] = gen_hex(r, 20)
            spec['hash_via'] = r.choice(['hex', 'hex', 'bytes']) if mode == 'setters' else 'hex'
        opt('file_hash', lambda: gen_hex(r, 48), 0.5)
        opt('file_size', lambda: r.choice(U64 + [r.randrange(0, 2 ** 40)]), 0.6)
        if r.random() < 0.8:
            ext = r.choice(list(EXT_KIND) + ['.MP4', '.Mp3', '.PNG', '.xyz', ''])
            base = r.choice(['file', 'my video', '\u0444\u0430\u0439\u043b', '\u4e2d\u6587', 'a.b.c', 'x' * 200, '\U0001f600'])
            spec['file_name'] = base + ext
        if mode == 'setters':
            opt('media_type', lambda: r.choice(['video/mp4', 'audio/mpeg', 'image/png', 'application/x-' + gen_text(r)[:20]]), 0.5)
            if r.random() < 0.7:
                spec['media_kind'] = r.choice(['video', 'audio', 'image'])
        for f in ('width', 'height', 'duration'):
            opt(f, lambda: r.choice(U32[1:] + [r.randrange(1, 10000)]), 0.6)
    elif kind == 'channel':
        opt('public_key', lambda: r.choice(['02', '03']) + gen_hex(r, 32), 0.9)
        spec['public_key_via'] = r.choice(['hex', 'bytes']) if mode == 'setters' else 'hex'
        opt('email', lambda: gen_text(r), 0.5)
        opt('website_url', lambda: gen_text(r), 0.5)
        opt('cover_url', lambda: gen_text(r), 0.5)
        if r.random() < 0.6:
            spec['featured'] = [gen_claim_id(r) for _ in range(gen_count(r))]
    elif kind == 'repost':
        opt('claim_id', lambda: gen_claim_id(r), 0.95)
        spec['ref_via'] = r.choice(['id', 'id', 'hash'])
    else:
        if r.random() < 0.9:
            spec['claims'] = [gen_claim_id(r) for _ in range(r.choice([0, 1, 2, 3, 10, 60, 250]) if r.random() < 0.3 else gen_count(r))]
    if r.random() < 0.5:
        spec['signed'] = {'channel_id': gen_hex(r, 20), 'signature': gen_hex(r, 64), 'via': r.choice(['id', 'id', 'hash'])}
    return spec


# ======================================================================================
# claims: driving the real API from a spec
# ======================================================================================
class L:
    """real lbry names, filled by load()"""
    ready = False


def load():
    if L.ready:
        return
    boot.import_lbry()
    from lbry.schema.claim import Claim, Stream, Channel, Repost, Collection
    from lbry.schema.support import Support
    from lbry.schema.purchase import Purchase
    from lbry.schema.url import URL
    from lbry.schema.types.v2.claim_pb2 import Claim as ClaimMessage, Language as LanguageMessage, Location as LocationMessage
    from lbry.schema.types.v2.support_pb2 import Support as SupportMessage
    L.Claim, L.Stream, L.Channel, L.Repost, L.Collection = Claim, Stream, Channel, Repost, Collection
    L.Support, L.Purchase, L.URL, L.ClaimMessage, L.SupportMessage = Support, Purchase, URL, ClaimMessage, SupportMessage
    countries = sorted(LocationMessage.Country.keys())
    L.tables = {
        'lang': sorted(n for n in LanguageMessage.Language.keys() if not n.startswith('UNKNOWN')),
        'script': sorted(n for n in LanguageMessage.Script.keys() if not n.startswith('UNKNOWN')),
        'country2': [n for n in countries if len(n) == 2 and n.isalpha()],
        'region3': [n[1:] for n in countries if len(n) == 4 and n[0] == 'R' and n[1:].isdigit()],
    }
    L.lang_num = {n: LanguageMessage.Language.Value(n) for n in L.tables['lang']}
    L.script_num = {n: LanguageMessage.Script.Value(n) for n in L.tables['script']}
    L.country_num = {n: LocationMessage.Country.Value(n) for n in countries}
    if len(L.tables['lang']) < 100 or len(L.tables['country2']) < 200 or len(L.tables['region3']) < 20:
        raise AssertionError('harness: enum tables look wrong')
    L.ready = True


def langtag_of(lg):
    return '-'.join(x for x in (lg['language'], lg['script'], lg['region']) if x)


def lang_class(lg):
    reg = lg['region']
    rc = '' if reg is None else ('+region3' if reg.isdigit() else ('+region2-R*' if reg.startswith('R') else '+region2'))
    return 'lang' + ('+script' if lg['script'] else '') + rc


def region_class(lg):
    """input class used in mechanism keys: alpha-2 regions starting with 'R' share their first letter with the
    'R###' names the enum gives to numeric UN M.49 regions."""
    reg = lg['region']
    return 'no-region' if reg is None else 'region3' if reg.isdigit() else 'region2-R*' if reg.startswith('R') else 'region2'


def location_value(loc, update_mode):
    d = {k: loc[k] for k in ('country', 'state', 'city', 'code', 'latitude', 'longitude') if k in loc}
    form = loc['form']
    if form == 'attrs' and update_mode:
        form = 'dict'
    if form == 'dict':
        return d
    if form == 'json':
        return json.dumps(d, ensure_ascii=bool(len(d) % 2))
    if form == 'str':
        parts = [d.get(k, '') for k in ('country', 'state', 'city', 'code', 'latitude', 'longitude')]
        while parts and parts[-1] == '':
            parts.pop()
        if 'country' not in d:
            if parts and set(d) <= {'latitude', 'longitude'} and loc.get('lat_units', 0) % 2 == 0:
                parts = parts[4:]           # "lat:long" short form
            else:
                while len(parts) < 3:
                    parts.append('')
        return ':'.join(parts)
    return None


def set_repeated_common(obj, spec):
    if 'tags' in spec:
        for i, t in enumerate(spec['tags']):
            if i % 3 == 2:
                obj.tags.extend([t])
            else:
                obj.tags.append(t)
    for lg in spec.get('languages', []):
        if lg['how'] == 'langtag':
            obj.languages.append(langtag_of(lg))
        else:
            item = obj.languages.add()
            item.language = lg['language']
            if lg['script']:
                item.script = lg['script']
            if lg['region']:
                item.region = lg['region']
    for loc in spec.get('locations', []):
        if loc['form'] == 'attrs':
            item = obj.locations.add()
            for k in ('country', 'state', 'city', 'code', 'latitude', 'longitude'):
                if k in loc:
                    setattr(item, k, loc[k])
        else:
            obj.locations.append(location_value(loc, False))


def expected_media(spec):
    """-> (kind|None, {field: value}) that the oracle is entitled to expect."""
    if 'media_expect' in spec:          # state of an update history: computed step by step (history_apply)
        return spec['media_expect'][0], dict(spec['media_expect'][1])
    dims = {f: spec[f] for f in ('width', 'height', 'duration') if f in spec}
    if spec['mode'] == 'update':
        if 'file_name' not in spec:
            return None, {}
        kind = EXT_KIND.get(os.path.splitext(spec['file_name'])[1].lower())
    else:
        kind = spec.get('media_kind')
    if kind not in ('video', 'audio', 'image'):
        return None, {}
    allowed = {'video': ('width', 'height', 'duration'), 'audio': ('duration',), 'image': ('width', 'height')}[kind]
    return kind, {f: v for f, v in dims.items() if f in allowed}


def update_kwargs(spec):
    """keyword arguments of <kind>.update() that assign the fields of an update-mode spec (or of one history step)."""
    kind = spec['kind']
    kw = {}
    for f in ('title', 'description', 'thumbnail_url'):
        if f in spec:
            kw[f] = spec[f]
    if 'tags' in spec:
        kw['tags'] = spec['tags'][0] if spec.get('tags_as_str') else list(spec['tags'])
    if 'languages' in spec:
        kw['languages'] = [langtag_of(lg) for lg in spec['languages']]
    if 'locations' in spec:
        kw['locations'] = [location_value(loc, True) for loc in spec['locations']]
    if kind == 'stream':
        for f in ('author', 'license', 'license_url', 'release_time', 'sd_hash', 'bt_infohash', 'file_name', 'file_hash',
                  'file_size', 'width', 'height', 'duration'):
            if f in spec:
                kw[f] = spec[f]
        if 'fee' in spec:
            fee = spec['fee']
            kw['fee_currency'], kw['fee_amount'] = fee['currency_spelling'], fee['amount']
            if 'address' in fee:
                kw['fee_address'] = fee['address']
    elif kind == 'channel':
        for f in ('public_key', 'email', 'website_url', 'cover_url', 'featured'):
            if f in spec:
                kw[f] = list(spec[f]) if isinstance(spec[f], list) else spec[f]
    elif kind == 'collection':
        if 'claims' in spec:
            kw['claims'] = list(spec['claims'])
    return kw


def build_claim(spec):
    """assemble the claim through the public API.  Exceptions propagate to the caller, which judges them."""
    claim = L.Claim()
    kind, mode = spec['kind'], spec['mode']
    obj = getattr(claim, kind)
    if mode == 'update':
        obj.update(**update_kwargs(spec))
        if kind == 'repost' and 'claim_id' in spec:
            obj.reference.claim_id = spec['claim_id']
    else:
        if 'title' in spec:
            obj.title = spec['title']
        if 'description' in spec:
            obj.description = spec['description']
        if 'thumbnail_url' in spec:
            obj.thumbnail.url = spec['thumbnail_url']
        set_repeated_common(obj, spec)
        if kind == 'stream':
            for f in ('author', 'license', 'license_url', 'release_time'):
                if f in spec:
                    setattr(obj, f, spec[f])
            if 'fee' in spec:
                fee = spec['fee']
                if fee['via'] == 'decimal':
                    setattr(obj.fee, fee['currency'].lower(), Decimal(fee['amount']))
                else:
                    setattr(obj.fee, {'LBC': 'dewies', 'BTC': 'satoshis', 'USD': 'pennies'}[fee['currency']], fee['units'])
                if 'address' in fee:
                    if fee['address_via'] == 'bytes':
                        obj.fee.address_bytes = bytes.fromhex(fee['address_hex'])
                    else:
                        obj.fee.address = fee['address']
            by = spec.get('hash_via') == 'bytes'
            if 'sd_hash' in spec:
                if by:
                    obj.source.sd_hash_bytes = bytes.fromhex(spec['sd_hash'])
                else:
                    obj.source.sd_hash = spec['sd_hash']
            if 'bt_infohash' in spec:
                if by:
                    obj.source.bt_infohash_bytes = bytes.fromhex(spec['bt_infohash'])
                else:
                    obj.source.bt_infohash = spec['bt_infohash']
            if 'file_hash' in spec:
                if by:
                    obj.source.file_hash_bytes = bytes.fromhex(spec['file_hash'])
                else:
                    obj.source.file_hash = spec['file_hash']
            if 'file_name' in spec:
                obj.source.name = spec['file_name']
            if 'file_size' in spec:
                obj.source.size = spec['file_size']
            if 'media_type' in spec:
                obj.source.media_type = spec['media_type']
            mk, dims = expected_media(spec)
            if mk:
                media = getattr(obj, mk)
                if 'width' in dims and 'height' in dims and dims['width'] % 2:
                    media.dimensions = (dims['width'], dims['height'])
                    dims = {k: v for k, v in dims.items() if k == 'duration'}
                for f, v in dims.items():
                    setattr(media, f, v)
        elif kind == 'channel':
            if 'public_key' in spec:
                if spec['public_key_via'] == 'bytes':
                    obj.public_key_bytes = bytes.fromhex(spec['public_key'])
                else:
                    obj.public_key = spec['public_key']
            for f in ('email', 'website_url'):
                if f in spec:
                    setattr(obj, f, spec[f])
            if 'cover_url' in spec:
                obj.cover.url = spec['cover_url']
            for cid in spec.get('featured', []):
                obj.featured.append(cid)
        elif kind == 'repost':
            if 'claim_id' in spec:
                if spec['ref_via'] == 'hash':
                    obj.reference.claim_hash = bytes.fromhex(spec['claim_id'])[::-1]
                else:
                    obj.reference.claim_id = spec['claim_id']
        else:
            if 'claims' in spec:
                obj.claims.extend(list(spec['claims']))
    sg = spec.get('signed')
    if sg:
        if sg['via'] == 'hash':
            claim.signing_channel_hash = bytes.fromhex(sg['channel_id'])[::-1]
        else:
            claim.signing_channel_id = sg['channel_id']
        claim.signature = bytes.fromhex(sg['signature'])
    return claim


# ======================================================================================
# claims: expectations (accessor view and wire view)
# ======================================================================================
def dec_eq(got, want):
    try:
        return got is not None and Decimal(got) == want
    except Exception:  # noqa
        return False


def accessor_probes(spec):
    """[(field, input class, getter(claim), wanted value, comparison)] derived from the spec only."""
    P = []
    kind = spec['kind']

    cache = {}

    def sub(c):
        # every `claim.stream` access re-serialises the claim (BaseClaim.__init__ evaluates `claim or Claim()`,
        # and Signable defines __len__): fetch the typed view once per object
        if id(c) not in cache:
            cache[id(c)] = (c, getattr(c, kind))
        return cache[id(c)][1]

    def add(field, fn, want, cls='', cmp=None, what=None):
        P.append((field, cls, fn, want, cmp, what or field))
    add('claim_type', lambda c: c.claim_type, kind)
    for f in ('title', 'description'):
        if f in spec:
            add(f, lambda c, f=f: getattr(sub(c), f), spec[f])
    if 'thumbnail_url' in spec:
        add('thumbnail.url', lambda c: sub(c).thumbnail.url, spec['thumbnail_url'])
    if 'tags' in spec:
        raw = spec['tags'][:1] if spec.get('tags_as_str') else spec['tags']
        add('tags', lambda c: list(sub(c).tags), ref_tags(raw))
    if 'languages' in spec:
        add('languages.count', lambda c: len(sub(c).languages), len(spec['languages']))
        classes = {region_class(lg) for lg in spec['languages']}
        for i, lg in enumerate(spec['languages'][:6]):
            cls = region_class(lg)
            add('languages', lambda c, i=i: sub(c).languages[i].langtag, langtag_of(lg), cls, what=f'languages[{i}].langtag')
            add('languages', lambda c, i=i: sub(c).languages[i].language, lg['language'], cls, what=f'languages[{i}].language')
            add('languages', lambda c, i=i: sub(c).languages[i].script, lg['script'], cls, what=f'languages[{i}].script')
            add('languages', lambda c, i=i: sub(c).languages[i].region, lg['region'], cls, what=f'languages[{i}].region')
        add('languages', lambda c: sub(c).langtags, [langtag_of(lg) for lg in spec['languages']],
            cls='region2-R*' if 'region2-R*' in classes else 'list', what='langtags')
    if 'locations' in spec:
        add('locations.count', lambda c: len(sub(c).locations), len(spec['locations']))
        for i, loc in enumerate(spec['locations'][:6]):
            cls = 'form-' + loc['form']
            add('locations.country', lambda c, i=i: sub(c).locations[i].country, loc.get('country'), cls)
            for f in ('state', 'city', 'code'):
                add('locations.' + f, lambda c, i=i, f=f: getattr(sub(c).locations[i], f), loc.get(f, ''), cls)
            for f, u in (('latitude', 'lat_units'), ('longitude', 'long_units')):
                if f not in loc:
                    add('locations.' + f, lambda c, i=i, f=f: getattr(sub(c).locations[i], f), None, cls)
                elif loc[u] != 0:
                    add('locations.' + f, lambda c, i=i, f=f: getattr(sub(c).locations[i], f),
                        Decimal(loc[u]) / Decimal(10 ** 7), cls, dec_eq)
    if kind == 'stream':
        for f in ('author', 'license', 'license_url', 'release_time'):
            if f in spec:
                add(f, lambda c, f=f: getattr(sub(c), f), spec[f])
        if 'fee' in spec:
            fee = spec['fee']
            cur = fee['currency']
            places = 2 if cur == 'USD' else 8
            want = Decimal(fee['units']) / Decimal(10 ** places)
            cls = cur + '-via-' + fee['via']
            add('has_fee', lambda c: sub(c).has_fee, True, cls)
            add('fee.currency', lambda c: sub(c).fee.currency, cur, cls)
            add('fee.amount', lambda c: sub(c).fee.amount, want, cls, dec_eq)
            add('fee.' + cur.lower(), lambda c: getattr(sub(c).fee, cur.lower()), want, cls, dec_eq)
            iname = {'LBC': 'dewies', 'BTC': 'satoshis', 'USD': 'pennies'}[cur]
            add('fee.' + iname, lambda c: getattr(sub(c).fee, iname), fee['units'], cls)
            if 'address' in fee:
                acls = 'leading-zero-byte' if fee['address_hex'].startswith('00') else ''
                add('fee.address', lambda c: sub(c).fee.address, fee['address'], acls)
                add('fee.address_bytes', lambda c: bytes(sub(c).fee.address_bytes), bytes.fromhex(fee['address_hex']), acls)
        for f, acc in (('sd_hash', 'sd_hash'), ('bt_infohash', 'bt_infohash'), ('file_hash', 'file_hash')):
            if f in spec:
                add('source.' + acc, lambda c, acc=acc: getattr(sub(c).source, acc), spec[f])
                add('source.' + acc + '_bytes', lambda c, acc=acc: getattr(sub(c).source, acc + '_bytes'), bytes.fromhex(spec[f]))
        if any(f in spec for f in ('sd_hash', 'bt_infohash', 'file_hash', 'file_name', 'file_size')):
            add('has_source', lambda c: sub(c).has_source, True)
        if 'file_name' in spec:
            add('source.name', lambda c: sub(c).source.name, spec['file_name'])
        if 'file_size' in spec:
            add('source.size', lambda c: sub(c).source.size, spec['file_size'])
        if 'media_type' in spec and spec['mode'] == 'setters':
            add('source.media_type', lambda c: sub(c).source.media_type, spec['media_type'])
        mk, dims = expected_media(spec)
        if mk and dims:
            add('stream_type', lambda c: sub(c).stream_type, mk, mk)
            for f, v in dims.items():
                add(f'{mk}.{f}', lambda c, f=f: getattr(getattr(sub(c), mk), f), v)
            if 'width' in dims and 'height' in dims:
                add(f'{mk}.dimensions', lambda c: tuple(getattr(sub(c), mk).dimensions), (dims['width'], dims['height']))
    elif kind == 'channel':
        if 'public_key' in spec:
            add('public_key', lambda c: sub(c).public_key, spec['public_key'])
            add('public_key_bytes', lambda c: bytes(sub(c).public_key_bytes), bytes.fromhex(spec['public_key']))
        for f in ('email', 'website_url'):
            if f in spec:
                add(f, lambda c, f=f: getattr(sub(c), f), spec[f])
        if 'cover_url' in spec:
            add('cover.url', lambda c: sub(c).cover.url, spec['cover_url'])
        if 'featured' in spec:
            add('featured.ids', lambda c: sub(c).featured.ids, spec['featured'])
            add('featured.count', lambda c: len(sub(c).featured), len(spec['featured']))
    elif kind == 'repost':
        if 'claim_id' in spec:
            add('reference.claim_id', lambda c: sub(c).reference.claim_id, spec['claim_id'])
            add('reference.claim_hash', lambda c: bytes(sub(c).reference.claim_hash), bytes.fromhex(spec['claim_id'])[::-1])
    else:
        if 'claims' in spec:
            add('claims.ids', lambda c: sub(c).claims.ids, spec['claims'])
            add('claims.count', lambda c: len(sub(c).claims), len(spec['claims']))
            if spec['claims']:
                add('claims[0].claim_hash', lambda c: bytes(sub(c).claims[0].claim_hash), bytes.fromhex(spec['claims'][0])[::-1])
    sg = spec.get('signed')
    add('is_signed', lambda c: c.is_signed, bool(sg))
    if sg:
        add('signing_channel_id', lambda c: c.signing_channel_id, sg['channel_id'])
        add('signing_channel_hash', lambda c: bytes(c.signing_channel_hash), bytes.fromhex(sg['channel_id'])[::-1])
        add('signature', lambda c: bytes(c.signature), bytes.fromhex(sg['signature']))
    else:
        add('signing_channel_id', lambda c: c.signing_channel_id, None, 'unsigned')
    return P


# ---- independent wire view -----------------------------------------------------------
def _msg(b, num):
    return b''.join(pbwire.fields(b, num))


def _s(b, num):
    return pbwire.last(b, num, b'').decode('utf8')


def _source(b):
    return {'hash': pbwire.last(b, 1, b''), 'name': _s(b, 2), 'size': pbwire.last(b, 3, 0), 'media_type': _s(b, 4),
            'url': _s(b, 5), 'sd_hash': pbwire.last(b, 6, b''), 'bt_infohash': pbwire.last(b, 7, b'')}


def _refs(b):
    return [pbwire.last(x, 1, b'') for x in pbwire.fields(b, 2)]


def wire_claim(mb):
    """what the message bytes contain, by public field numbers of claim.proto (v2)."""
    top = pbwire.decode(mb)
    present = [n for n, _, _ in top if n in (1, 2, 3, 4)]
    w = {'type': {1: 'stream', 2: 'channel', 3: 'collection', 4: 'repost'}[present[-1]] if present else None,
         'title': _s(mb, 8), 'description': _s(mb, 9), 'thumbnail': _source(_msg(mb, 10)),
         'tags': [t.decode('utf8') for t in pbwire.fields(mb, 11)],
         'languages': [(pbwire.last(x, 1, 0), pbwire.last(x, 2, 0), pbwire.last(x, 3, 0)) for x in pbwire.fields(mb, 12)],
         'locations': [{'country': pbwire.last(x, 1, 0), 'state': _s(x, 2), 'city': _s(x, 3), 'code': _s(x, 4),
                        'latitude': pbwire.zigzag_decode(pbwire.last(x, 5, 0)), 'longitude': pbwire.zigzag_decode(pbwire.last(x, 6, 0))}
                       for x in pbwire.fields(mb, 13)]}
    if w['type'] == 'stream':
        st = _msg(mb, 1)
        fee = _msg(st, 6)
        w['stream'] = {'source': _source(_msg(st, 1)), 'author': _s(st, 2), 'license': _s(st, 3), 'license_url': _s(st, 4),
                       'release_time': pbwire.to_int64(pbwire.last(st, 5, 0)), 'has_fee': bool(pbwire.fields(st, 6)),
                       'fee': {'currency': pbwire.last(fee, 1, 0), 'address': pbwire.last(fee, 2, b''), 'amount': pbwire.last(fee, 3, 0)},
                       'media': {}}
        for num, name in ((10, 'image'), (11, 'video'), (12, 'audio')):
            if pbwire.fields(st, num):
                m = _msg(st, num)
                if name == 'audio':
                    w['stream']['media'][name] = {'duration': pbwire.last(m, 1, 0)}
                else:
                    w['stream']['media'][name] = {'width': pbwire.last(m, 1, 0), 'height': pbwire.last(m, 2, 0), 'duration': pbwire.last(m, 3, 0)}
    elif w['type'] == 'channel':
        ch = _msg(mb, 2)
        w['channel'] = {'public_key': pbwire.last(ch, 1, b''), 'email': _s(ch, 2), 'website_url': _s(ch, 3),
                        'cover': _source(_msg(ch, 4)), 'featured': _refs(_msg(ch, 5))}
    elif w['type'] == 'collection':
        w['collection'] = {'claims': _refs(_msg(mb, 3))}
    elif w['type'] == 'repost':
        w['repost'] = {'claim_hash': pbwire.last(_msg(mb, 4), 1, b'')}
    return w


def wire_probes(spec):
    """[(field, input class, getter(wire dict), wanted)]"""
    P = []
    kind = spec['kind']

    def add(field, fn, want, cls=''):
        P.append((field, cls, fn, want))
    add('type', lambda w: w['type'], kind)
    for f in ('title', 'description'):
        if f in spec:
            add(f, lambda w, f=f: w[f], spec[f])
    if 'thumbnail_url' in spec:
        add('thumbnail.url', lambda w: w['thumbnail']['url'], spec['thumbnail_url'])
    if 'tags' in spec:
        raw = spec['tags'][:1] if spec.get('tags_as_str') else spec['tags']
        add('tags', lambda w: w['tags'], ref_tags(raw))
    if 'languages' in spec:
        want = []
        for lg in spec['languages']:
            reg = lg['region']
            want.append((L.lang_num[lg['language']], L.script_num[lg['script']] if lg['script'] else 0,
                         0 if reg is None else L.country_num['R' + reg if reg.isdigit() else reg]))
        add('languages', lambda w: w['languages'], want)
    if 'locations' in spec:
        want = [{'country': L.country_num[loc['country']] if 'country' in loc else 0, 'state': loc.get('state', ''),
                 'city': loc.get('city', ''), 'code': loc.get('code', ''), 'latitude': loc.get('lat_units', 0),
                 'longitude': loc.get('long_units', 0)} for loc in spec['locations']]
        add('locations', lambda w: w['locations'], want)
    if kind == 'stream':
        for f in ('author', 'license', 'license_url', 'release_time'):
            if f in spec:
                add(f, lambda w, f=f: w['stream'][f], spec[f])
        if 'fee' in spec:
            fee = spec['fee']
            cls = fee['currency'] + '-via-' + fee['via']
            add('fee.currency', lambda w: w['stream']['fee']['currency'], CURRENCY_NUM[fee['currency']], cls)
            add('fee.amount', lambda w: w['stream']['fee']['amount'], fee['units'], cls)
            if 'address' in fee:
                add('fee.address', lambda w: w['stream']['fee']['address'], bytes.fromhex(fee['address_hex']),
                    'leading-zero-byte' if fee['address_hex'].startswith('00') else '')
        for f, wf in (('sd_hash', 'sd_hash'), ('bt_infohash', 'bt_infohash'), ('file_hash', 'hash')):
            if f in spec:
                add('source.' + wf, lambda w, wf=wf: w['stream']['source'][wf], bytes.fromhex(spec[f]))
        if 'file_name' in spec:
            add('source.name', lambda w: w['stream']['source']['name'], spec['file_name'])
        if 'file_size' in spec:
            add('source.size', lambda w: w['stream']['source']['size'], spec['file_size'])
        if 'media_type' in spec and spec['mode'] == 'setters':
            add('source.media_type', lambda w: w['stream']['source']['media_type'], spec['media_type'])
        mk, dims = expected_media(spec)
        if mk and dims:
            for f, v in dims.items():
                add(f'{mk}.{f}', lambda w, f=f: w['stream']['media'].get(mk, {}).get(f), v)
    elif kind == 'channel':
        if 'public_key' in spec:
            add('public_key', lambda w: w['channel']['public_key'], bytes.fromhex(spec['public_key']))
        for f in ('email', 'website_url'):
            if f in spec:
                add(f, lambda w, f=f: w['channel'][f], spec[f])
        if 'cover_url' in spec:
            add('cover.url', lambda w: w['channel']['cover']['url'], spec['cover_url'])
        if 'featured' in spec:
            add('featured', lambda w: w['channel']['featured'], [bytes.fromhex(x)[::-1] for x in spec['featured']])
    elif kind == 'repost':
        if 'claim_id' in spec:
            add('repost.claim_hash', lambda w: w['repost']['claim_hash'], bytes.fromhex(spec['claim_id'])[::-1])
    else:
        if 'claims' in spec:
            add('collection.claims', lambda w: w['collection']['claims'], [bytes.fromhex(x)[::-1] for x in spec['claims']])
    return P


# ======================================================================================
# claims: judging one spec
# ======================================================================================
def short(v, n=160):
    s = repr(v)
    return s if len(s) <= n else s[:n] + f'...<{len(s)} chars>'


def run_probes(rec, view, obj, probes, lit, spec_summary):
    for probe in probes:
        field, cls, fn, want, cmp = probe[:5]
        tag = f'{field}[{cls}]' if cls else field
        field = probe[5] if len(probe) > 5 else field     # precise accessor path for the message
        rec.hit('M2.' + view + '_view')
        try:
            got = fn(obj)
        except Exception as e:  # noqa  (exception from the accessor under test: judged)
            rec.violation(f'C16/M2/accessor-raises/{tag}/{type(e).__name__}',
                          f'{view} view: reading {field} raised {e!r}; value set was {short(want)}',
                          {'view': view, 'field': field, 'want': want, 'exception': repr(e), 'spec': spec_summary}, case=lit)
            continue
        ok = cmp(got, want) if cmp else got == want
        if not ok:
            rec.violation(f'C16/M2/accessor-differs/{tag}',
                          f'{view} view: {field} reads {short(got)} but {short(want)} was set',
                          {'view': view, 'field': field, 'got': got if not isinstance(got, Decimal) else str(got),
                           'want': want if not isinstance(want, Decimal) else str(want), 'spec': spec_summary}, case=lit)


def check_envelope(rec, kind_name, b, sg, lit):
    """M1: version byte + optional 20-byte channel hash + 64-byte signature; returns message bytes."""
    if sg:
        rec.hit('M1.signed_checked')
        want_hash = bytes.fromhex(sg['channel_id'])[::-1]
        want_sig = bytes.fromhex(sg['signature'])
        if b[:1] != b'\x01':
            rec.violation(f'C16/M1/envelope-layout/{kind_name}/version-byte-signed', f'signed bytes start with {b[:1]!r}', {'hex': b[:90]}, case=lit)
        if b[1:21] != want_hash:
            rec.violation(f'C16/M1/envelope-layout/{kind_name}/channel-hash',
                          f'bytes[1:21]={b[1:21].hex()} but channel id {sg["channel_id"]} means hash {want_hash.hex()}',
                          {'got': b[1:21], 'want': want_hash}, case=lit)
        if b[21:85] != want_sig:
            rec.violation(f'C16/M1/envelope-layout/{kind_name}/signature', 'bytes[21:85] differ from the signature set',
                          {'got': b[21:85], 'want': want_sig}, case=lit)
        return b[85:]
    rec.hit('M1.unsigned_checked')
    if b[:1] != b'\x00':
        rec.violation(f'C16/M1/envelope-layout/{kind_name}/version-byte-unsigned', f'unsigned bytes start with {b[:1]!r}', {'hex': b[:20]}, case=lit)
    return b[1:]


def roundtrip(rec, kind_name, cls, msg_cls, obj, sg, lit):
    """M1 for any Signable.  returns (bytes, decoded, message_bytes) or None."""
    scls = 'signed' if sg else 'unsigned'
    try:
        b = obj.to_bytes()
        b_again = bytes(obj)
        ln = len(obj)
    except Exception as e:  # noqa
        rec.violation(f'C16/M1/to_bytes-raises/{kind_name}/{type(e).__name__}', f'to_bytes raised {e!r}', {'exc': repr(e)}, case=lit)
        return None
    rec.hit('M1.roundtrip_checked')
    if b != b_again or ln != len(b):
        rec.violation(f'C16/M1/to_bytes-unstable/{kind_name}', 'to_bytes / __bytes__ / __len__ disagree', {'a': b, 'b': b_again, 'len': ln}, case=lit)
    try:
        dec = cls.from_bytes(b)
    except Exception as e:  # noqa
        rec.violation(f'C16/M1/from_bytes-raises/{kind_name}-{scls}/{type(e).__name__}',
                      f'{kind_name}.from_bytes(to_bytes(x)) raised {e!r} ({len(b)} bytes)', {'bytes': b, 'exc': repr(e)}, case=lit)
        return None
    try:
        b2 = dec.to_bytes()
    except Exception as e:  # noqa
        rec.violation(f'C16/M1/reencode-raises/{kind_name}-{scls}/{type(e).__name__}', f're-encoding raised {e!r}', {'bytes': b}, case=lit)
        return None
    if b2 != b:
        rec.violation(f'C16/M1/reencode-differs/{kind_name}-{scls}', f'from_bytes(to_bytes(x)).to_bytes() differs ({len(b)} vs {len(b2)} bytes)',
                      {'first': b, 'second': b2}, case=lit)
    if not (dec.message == obj.message):
        rec.violation(f'C16/M1/message-differs/{kind_name}-{scls}', 'decoded message != assembled message', {'bytes': b}, case=lit)
    mb = check_envelope(rec, kind_name, b, sg, lit)
    try:
        plain = msg_cls.FromString(mb)
        same = plain == obj.message and plain.SerializeToString() == mb
    except Exception as e:  # noqa
        same = False
        rec.log('M1.plain_parse_exception_' + type(e).__name__)
    rec.hit('M1.plain_parse_checked')
    if not same:
        rec.violation(f'C16/M1/plain-parse-differs/{kind_name}-{scls}', 'plain protobuf parse of the payload != assembled message',
                      {'bytes': b}, case=lit)
    return b, dec, mb


def spec_summary(spec):
    s = json.loads(json.dumps(spec))
    for k, v in list(s.items()):
        if isinstance(v, str) and len(v) > 200:
            s[k] = v[:200] + f'...<{len(v)}>'
        if isinstance(v, list) and len(v) > 8:
            s[k] = v[:8] + [f'...<{len(v)} items>']
    return s


def raised_where(e):
    """file:function of the innermost lbry frame of an exception; a harness exception (no lbry frame) is re-raised."""
    import traceback
    inner = [f for f in traceback.extract_tb(e.__traceback__) if '/lbry/' in f.filename]
    if not inner:
        raise e
    return os.path.basename(inner[-1].filename) + ':' + inner[-1].name


def build_or_report(rec, spec, lit, summ):
    kind = spec['kind']
    try:
        return build_claim(spec)
    except Exception as e:  # noqa  (raised by the metadata API on an in-range value: judged)
        where = raised_where(e)
        rec.violation(f'C16/M2/set-raises/{kind}-{spec["mode"]}/{type(e).__name__}@{where}',
                      f'assembling a {kind} claim through {spec["mode"]} raised {e!r}', {'spec': summ, 'exc': repr(e)}, case=lit)
        rec.case('x' + json.dumps(lit))
        return None


def judge_claim(rec, spec, lit):
    kind = spec['kind']
    summ = spec_summary(spec)
    claim = build_or_report(rec, spec, lit, summ)
    if claim is None:
        return
    rec.hit('M2.kind.' + kind)
    rec.hit('M2.mode.' + spec['mode'])
    if 'fee' in spec:
        rec.hit('M2.fee.' + spec['fee']['currency'])
    for lg in spec.get('languages', []):
        rec.hit('M2.language.' + lang_class(lg))
    for loc in spec.get('locations', []):
        rec.hit('M2.location.form-' + loc['form'])
        if loc.get('lat_units') == 0 or loc.get('long_units') == 0:
            rec.log('M2.zero_coordinate_reads_None')
    judge_built(rec, claim, spec, lit, summ)


def judge_built(rec, claim, spec, lit, summ):
    """M1 + M2 for an assembled claim against the spec that describes what was set.  -> (decoded, wire dict) or None."""
    kind = spec['kind']
    probes = accessor_probes(spec)
    run_probes(rec, 'set', claim, probes, lit, summ)
    rt = roundtrip(rec, 'Claim', L.Claim, L.ClaimMessage, claim, spec.get('signed'), lit)
    if rt is None:
        rec.case('x' + json.dumps(lit))
        return None
    b, dec, mb = rt
    rec.case(b, sample={'claim_spec': summ, 'bytes': b[:120]} if len(b) < 400 and rec.evaluations % 97 == 0 else None)
    run_probes(rec, 'decoded', dec, probes, lit, summ)
    try:
        w = wire_claim(mb)
    except (pbwire.WireError, UnicodeDecodeError, KeyError) as e:
        rec.violation(f'C16/M2/wire-unreadable/{type(e).__name__}', f'payload is not well-formed protobuf: {e!r}', {'bytes': b}, case=lit)
        return None
    for field, cls, fn, want in wire_probes(spec):
        rec.hit('M2.wire_view')
        got = fn(w)
        if got != want:
            tag = f'{field}[{cls}]' if cls else field
            rec.violation(f'C16/M2/wire-differs/{tag}', f'bytes hold {field}={short(got)} but {short(want)} was set',
                          {'field': field, 'got': got, 'want': want, 'spec': summ, 'bytes': b}, case=lit)
    # the decoded object's accessors must also agree with the wire where both are plain (tags: no read-side rewriting)
    try:
        if list(getattr(dec, kind).tags) != w['tags']:
            rec.violation('C16/M2/accessor-vs-wire/tags', f'tags accessor {short(list(getattr(dec, kind).tags))} != bytes {short(w["tags"])}',
                          {'accessor': list(getattr(dec, kind).tags), 'wire': w['tags']}, case=lit)
        rec.hit('M2.accessor_vs_wire')
    except Exception as e:  # noqa
        rec.log('M2.tags_accessor_exception_' + type(e).__name__)
    try:
        getattr(dec, kind).to_dict()
        rec.log('to_dict.ok')
    except Exception as e:  # noqa  (to_dict is not part of the statement: logged only)
        rec.log('to_dict.raises_' + type(e).__name__)
    return dec, w


def run_claims(rec, seed, count):
    for i in range(count):
        if rec.out_of_time():
            return
        sub = seed * 1000 + i
        judge_claim_seed(rec, sub)


def judge_claim_seed(rec, sub):
    spec = gen_claim_spec(random.Random(sub), L.tables)
    judge_claim(rec, spec, {'fam': 'claim1', 'seed': sub})


# ---- re-assembly histories (M6) --------------------------------------------------------
# A claim is not only assembled once: `stream_update` / `publish` copy the stored claim through its wire format
# (Claim.from_bytes(old.to_bytes())) and call update() again with the fields that change.  The state the oracle expects
# after every step is computed here from what the harness itself assigned, step by step (never read from the claim):
# a field keeps its value until a later step assigns or clears it, and the typed description (image/video/audio)
# belongs to the file the claim points at NOW.
MEDIA_FIELDS = {'video': ('width', 'height', 'duration'), 'audio': ('duration',), 'image': ('width', 'height')}
HISTORY_SCALARS = ('title', 'description', 'thumbnail_url', 'author', 'license', 'license_url', 'release_time', 'sd_hash',
                   'bt_infohash', 'file_name', 'file_hash', 'file_size')
FILE_BASES = ['file', 'my video', '\u0444\u0430\u0439\u043b', '\u4e2d\u6587', 'a.b.c', 'x' * 200, '\U0001f600']
PATH_BASES = ['file', 'my video', 'a.b.c']           # names of files really written to a scratch directory


def file_kind(name):
    """stream type of the file a claim points at, by extension (independent table); 'no' = no file name at all."""
    if not name:
        return 'no'
    return EXT_KIND.get(os.path.splitext(name)[1].lower(), 'other')


def history_start(spec0):
    st = json.loads(json.dumps(spec0))
    mk, vals = expected_media(spec0)
    st['media_expect'] = [mk, vals]
    st.pop('tags_as_str', None)         # (only ever set for a one-element list)
    return st


def history_apply(state, step):
    """expected state after update(**step) on a claim in `state`: pure function of what the harness assigned."""
    st = json.loads(json.dumps(state))
    for f in HISTORY_SCALARS:
        if f in step:
            st[f] = step[f]
    for l in ('tags', 'languages', 'locations'):
        if step.get('clear_' + l):
            st[l] = []
        if l in step:
            st[l] = st.get(l, []) + list(step[l])
    if step.get('clear_fee'):
        st.pop('fee', None)
        st['no_fee'] = True
    elif 'fee' in step:
        fee = dict(step['fee'])
        old = st.get('fee', {})
        if 'address' not in fee and 'address' in old:       # an amount/currency change does not touch the address
            fee['address'], fee['address_hex'], fee['address_via'] = old['address'], old['address_hex'], 'str'
        st['fee'] = fee
        st.pop('no_fee', None)
    prev_mk, prev_vals = st['media_expect']
    kind = file_kind(st.get('file_name'))
    cur = kind if kind in MEDIA_FIELDS else None
    vals = dict(prev_vals) if cur is not None and cur == prev_mk else {}
    if cur:
        vals.update({f: step[f] for f in MEDIA_FIELDS[cur] if f in step})
    st['media_expect'] = [cur, vals]
    return st


def history_kwargs(step, tmpdir):
    kw = update_kwargs(step)
    for l in ('tags', 'languages', 'locations', 'fee'):
        if step.get('clear_' + l):
            kw['clear_' + l] = True
    if step.get('fee', {}).get('amount_only'):
        kw.pop('fee_currency')
        kw.pop('fee_address', None)
    if step.get('file_via') == 'path':
        # publish / stream_update --file_path: name, size and hash come from the file on disk
        for f in ('file_name', 'file_size', 'file_hash'):
            kw.pop(f)
        kw['file_path'] = os.path.join(tmpdir, step['file_name'])
        with open(kw['file_path'], 'wb') as f:
            f.write(step['content'].encode('ascii'))
    return kw


def set_file(r, step, name, via):
    step['file_name'] = name
    if via == 'path':
        # plain ASCII text: no container signature that content sniffing could recognise, nothing for a media parser
        content = ''.join('%d plain text, not a media container\n' % r.randrange(10 ** 6) for _ in range(r.randrange(1, 40)))
        step.update({'file_via': 'path', 'content': content, 'file_size': len(content),
                     'file_hash': hashlib.sha384(content.encode('ascii')).hexdigest()})


def gen_dim(r):
    return r.choice(U32[1:] + [r.randrange(1, 10000)])


def gen_history_step(r, tables, state):
    step = {'kind': 'stream', 'copy': r.choice(['wire', 'wire', 'inplace'])}

    def opt(name, fn, p):
        if r.random() < p:
            step[name] = fn()
    opt('title', lambda: gen_text(r), 0.3)
    opt('description', lambda: gen_text(r), 0.15)
    opt('thumbnail_url', lambda: gen_text(r), 0.15)
    opt('author', lambda: gen_text(r), 0.2)
    opt('license', lambda: gen_text(r), 0.15)
    opt('license_url', lambda: gen_text(r), 0.1)
    opt('release_time', lambda: r.choice(I64 + [r.randrange(0, 2 ** 33)]), 0.2)
    opt('sd_hash', lambda: gen_hex(r, 48), 0.3)
    opt('clear_tags', lambda: True, 0.2)
    if r.random() < 0.3:
        step['tags'] = [gen_tag(r) for _ in range(r.choice([1, 1, 2, 3, 5]))]
        if len(step['tags']) == 1 and r.random() < 0.5:
            step['tags_as_str'] = True
    opt('clear_languages', lambda: True, 0.2)
    opt('languages', lambda: [gen_language(r, tables) for _ in range(r.choice([1, 1, 2, 3]))], 0.25)
    opt('clear_locations', lambda: True, 0.1)
    opt('locations', lambda: [gen_location(r, tables) for _ in range(r.choice([1, 2]))], 0.15)
    k = r.random()
    via = None
    if k < 0.6:
        via = 'name' if k < 0.45 else 'path'
        ext = r.choice(list(EXT_KIND) + ['.MP4', '.Mp3', '.PNG', '.xyz', ''])
        set_file(r, step, r.choice(PATH_BASES if via == 'path' else FILE_BASES) + ext, via)
    if via != 'path':
        opt('file_size', lambda: r.choice(U64 + [r.randrange(0, 2 ** 40)]), 0.2)
        opt('file_hash', lambda: gen_hex(r, 48), 0.15)
    dims = r.choice(['none', 'none', 'none', 'all', 'some'])
    if via == 'path' and file_kind(step['file_name']) in MEDIA_FIELDS:
        dims = 'all'            # (all three given: the library does not try to analyse the file)
    for f in ('width', 'height', 'duration'):
        if dims == 'all' or (dims == 'some' and r.random() < 0.5):
            step[f] = gen_dim(r)
    k = r.random()
    if k < 0.15:
        step['fee'] = gen_fee(r, 'update')
    elif k < 0.25:
        step['clear_fee'] = True
    elif k < 0.35 and 'fee' in state:
        cur = state['fee']['currency']
        places = 2 if cur == 'USD' else 8
        units = r.randrange(1, 10 ** (places + 4))
        step['fee'] = dict(state['fee'], units=units, amount=fmt_units(units, places, r.choice([0, 1, 2])), amount_only=True)
    return step


def judge_history_extras(rec, claim, dec, w, before, state, step_no, lit, summ):
    """M6 clauses the per-field probes cannot express: what must NOT be there any more."""
    mk, vals = state['media_expect']
    want = mk if vals else None
    was = before['media_expect'][0] if before['media_expect'][1] else None
    now_file = file_kind(state.get('file_name'))
    rec.hit('M6.media_exact_checked')
    if was is not None and was != mk:
        rec.hit('M6.type_changed')
        if not vals:
            rec.hit('M6.type_changed_nothing_typed_written')
    views = []
    for view, c in (('set', claim), ('decoded', dec)):
        try:
            views.append((view, c.stream.stream_type))
        except Exception as e:  # noqa  (accessor under test)
            rec.violation(f'C16/M6/accessor-raises/stream_type/{type(e).__name__}', f'{view} view: stream_type raised {e!r}',
                          {'view': view, 'exc': repr(e), 'history': summ}, case=lit)
    present = sorted(w['stream']['media'])
    views.append(('wire', present[0] if len(present) == 1 else (None if not present else '+'.join(present))))
    for view, got in views:
        if got is not None and got != want:
            rec.violation(f'C16/M6/stale-media-description/{got}-on-{now_file}-file',
                          f'{view} view after step {step_no}: the claim points at {state.get("file_name")!r} ({now_file} file) and '
                          f'{vals or "no typed field"} was set for it, but it carries a {got} description'
                          + (f' {w["stream"]["media"].get(got)}' if got in w['stream']['media'] else ''),
                          {'view': view, 'got': got, 'want': want, 'wire_media': w['stream']['media'], 'history': summ}, case=lit)
    if state.get('no_fee'):
        rec.hit('M6.fee_cleared_checked')
        got = {'set': None, 'decoded': None, 'wire': w['stream']['has_fee']}
        for view, c in (('set', claim), ('decoded', dec)):
            try:
                got[view] = c.stream.has_fee
            except Exception as e:  # noqa
                got[view] = repr(e)
        if any(v is not False for v in got.values()):
            rec.violation('C16/M6/fee-left-over-after-clear_fee', f'after step {step_no} (clear_fee) has_fee reads {got}',
                          {'has_fee': got, 'history': summ}, case=lit)


def run_history(rec, spec0, steps, lit):
    """steps: list of step dicts, or a callable(state) -> next step | None (random histories depend on the state)."""
    import shutil
    import tempfile
    claim = build_or_report(rec, spec0, lit, {'spec0': spec_summary(spec0)})
    if claim is None:
        return
    state = history_start(spec0)
    tmpdir = None
    try:
        n = 0
        while True:
            step = steps(state) if callable(steps) else (steps[n] if n < len(steps) else None)
            if step is None:
                return
            n += 1
            if step.get('file_via') == 'path' and tmpdir is None:
                tmpdir = tempfile.mkdtemp(prefix='c16hist', dir='/dev/shm' if os.path.isdir('/dev/shm') else None)
            kw = history_kwargs(step, tmpdir)
            summ = {'start': spec_summary(spec0), 'step_no': n, 'step': spec_summary({k: v for k, v in step.items() if k != 'content'}),
                    'update_kwargs': sorted(kw)}
            try:
                if step['copy'] == 'wire':
                    claim = L.Claim.from_bytes(claim.to_bytes())    # what the daemon does with the stored claim
                claim.stream.update(**kw)
            except Exception as e:  # noqa  (raised by the metadata API on an in-range value: judged)
                where = raised_where(e)
                rec.violation(f'C16/M6/update-raises/{type(e).__name__}@{where}', f'step {n} of an update history raised {e!r}',
                              {'history': summ, 'exc': repr(e)}, case=lit)
                rec.case('x' + json.dumps(lit) + str(n))
                return
            before, state = state, history_apply(state, step)
            rec.hit('M6.step_checked')
            rec.hit('M6.copy.' + step['copy'])
            if step.get('file_via') == 'path':
                rec.hit('M6.file_path_checked')
            res = judge_built(rec, claim, state, lit, summ)
            if res is None:
                return
            judge_history_extras(rec, claim, res[0], res[1], before, state, n, lit, summ)
    finally:
        if tmpdir is not None:
            shutil.rmtree(tmpdir, ignore_errors=True)


def judge_history_seed(rec, sub):
    r = random.Random(sub)
    spec0 = gen_claim_spec(r, L.tables, kind='stream', mode='update')
    if r.random() < 0.5:
        # start from a file that has a typed description (the common case for stored claims)
        spec0['file_name'] = r.choice(FILE_BASES) + r.choice([e for e, k in EXT_KIND.items() if k in MEDIA_FIELDS])
        for f in MEDIA_FIELDS[file_kind(spec0['file_name'])]:
            spec0.setdefault(f, gen_dim(r))
    left = [r.choice([1, 1, 2, 3])]

    def next_step(state):
        if not left[0]:
            return None
        left[0] -= 1
        return gen_history_step(r, L.tables, state)
    run_history(rec, spec0, next_step, {'fam': 'history1', 'seed': sub})


def run_histories(rec, seed, count):
    for i in range(count):
        if rec.out_of_time():
            return
        judge_history_seed(rec, seed * 1000 + i)


def run_history_fixed(rec):
    """every (described file kind) x (next file kind) x (which dimensions come with the new file) x (copy mode) transition."""
    lit = {'fam': 'history_fixed'}
    first = {'width': 1920, 'height': 1080, 'duration': 3600}
    second = {'width': 640, 'height': 480, 'duration': 215}
    r = random.Random(16)
    for prev_ext in ('.mp4', '.mp3', '.png', '.pdf', '.zip', ''):
        for next_ext in ('.mkv', '.flac', '.jpg', '.txt', '.zip', '.xyz', '', None):
            kind = file_kind('b' + (prev_ext if next_ext is None else next_ext))
            fits = MEDIA_FIELDS.get(kind, ())
            for dims in ('none', 'fitting', 'unfitting', 'all'):
                given = {f: v for f, v in second.items() if dims == 'all' or (dims == 'fitting') == (f in fits)} if dims != 'none' else {}
                if dims in ('fitting', 'unfitting') and (not given or len(given) == 3):
                    continue        # same as 'none' / 'all'
                for copy in ('wire', 'inplace'):
                    for via in ('name', 'path'):
                        if via == 'path' and (next_ext is None or (kind in MEDIA_FIELDS and dims != 'all')):
                            continue
                        spec0 = dict({'kind': 'stream', 'mode': 'update', 'title': 'first', 'file_name': 'a' + prev_ext,
                                      'sd_hash': 'ab' * 48}, **first)
                        step = dict({'kind': 'stream', 'copy': copy}, **given)
                        if next_ext is not None:
                            set_file(r, step, 'b' + next_ext, via)
                        rec.hit('M6.fixed_history')
                        run_history(rec, spec0, [step, {'kind': 'stream', 'copy': copy, 'title': 'title only'}], lit)


# ---- supports and purchases ----------------------------------------------------------
def judge_support(rec, sub):
    r = random.Random(sub)
    lit = {'fam': 'support1', 'seed': sub}
    spec = {}
    if r.random() < 0.7:
        spec['emoji'] = r.choice(['\U0001f600', '\U0001f44d\U0001f3fd', '', 'x', gen_text(r)])
    if r.random() < 0.7:
        spec['comment'] = gen_text(r)
    sg = {'channel_id': gen_hex(r, 20), 'signature': gen_hex(r, 64)} if r.random() < 0.5 else None
    s = L.Support()
    for f, v in spec.items():
        setattr(s, f, v)
    if sg:
        s.signing_channel_id = sg['channel_id']
        s.signature = bytes.fromhex(sg['signature'])
    rt = roundtrip(rec, 'Support', L.Support, L.SupportMessage, s, sg, lit)
    rec.hit('M2.support_checked')
    if rt is None:
        rec.case('sx%d' % sub)
        return
    b, dec, mb = rt
    rec.case(b)
    for view, o in (('set', s), ('decoded', dec)):
        probes = [(f, '', (lambda o, f=f: getattr(o, f)), v, None) for f, v in spec.items()]
        probes.append(('is_signed', '', lambda o: o.is_signed, bool(sg), None))
        if sg:
            probes.append(('signing_channel_id', '', lambda o: o.signing_channel_id, sg['channel_id'], None))
            probes.append(('signature', '', lambda o: bytes(o.signature), bytes.fromhex(sg['signature']), None))
        run_probes(rec, view, o, [('support.' + p[0],) + p[1:] for p in probes], lit, spec)
    rec.hit('M2.wire_view')
    got = {'emoji': _s(mb, 1), 'comment': _s(mb, 2)}
    want = {'emoji': spec.get('emoji', ''), 'comment': spec.get('comment', '')}
    if got != want:
        rec.violation('C16/M2/wire-differs/support', f'support bytes hold {short(got)}, set {short(want)}', {'got': got, 'want': want, 'bytes': b}, case=lit)


def judge_purchase(rec, sub):
    r = random.Random(sub)
    lit = {'fam': 'purchase1', 'seed': sub}
    cid = gen_claim_id(r) if r.random() < 0.95 else None
    how = r.choice(['ctor', 'setter', 'hash'])
    rec.hit('M2.purchase_checked')
    try:
        if cid is None or how == 'ctor':
            p = L.Purchase(cid)
        elif how == 'setter':
            p = L.Purchase()
            p.claim_id = cid
        else:
            p = L.Purchase()
            p.claim_hash = bytes.fromhex(cid)[::-1]
        b = p.to_bytes()
        dec = L.Purchase.from_bytes(b)
        b2 = dec.to_bytes()
    except Exception as e:  # noqa
        rec.violation(f'C16/M1/purchase-roundtrip-raises/{type(e).__name__}', f'Purchase({cid!r}) round trip raised {e!r}', {'claim_id': cid}, case=lit)
        rec.case('px%d' % sub)
        return
    rec.case(b)
    rec.hit('M1.roundtrip_checked')
    if b2 != b or b[:1] != b'P' or len(p) != len(b) or bytes(p) != b:
        rec.violation('C16/M1/reencode-differs/Purchase', 'Purchase bytes do not round-trip / do not start with "P"', {'first': b, 'second': b2}, case=lit)
    want_id = cid if cid is not None else ''
    want_hash = bytes.fromhex(want_id)[::-1]
    for view, o in (('set', p), ('decoded', dec)):
        run_probes(rec, view, o, [('purchase.claim_id', '', lambda o: o.claim_id, want_id, None),
                                  ('purchase.claim_hash', '', lambda o: bytes(o.claim_hash), want_hash, None)], lit, {'claim_id': cid})
    rec.hit('M2.wire_view')
    got = pbwire.last(b[1:], 1, b'')
    if got != want_hash:
        rec.violation('C16/M2/wire-differs/purchase.claim_hash', f'purchase bytes hold hash {got.hex()}, claim id {cid} means {want_hash.hex()}',
                      {'got': got, 'want': want_hash}, case=lit)


# ---- out-of-range integers: rejected or kept, never truncated -------------------------
def run_range(rec):
    lit = {'fam': 'range'}
    targets = [
        ('video.width', 32, lambda st, v: setattr(st.video, 'width', v), lambda st: st.video.width),
        ('video.height', 32, lambda st, v: setattr(st.video, 'height', v), lambda st: st.video.height),
        ('video.duration', 32, lambda st, v: setattr(st.video, 'duration', v), lambda st: st.video.duration),
        ('audio.duration', 32, lambda st, v: setattr(st.audio, 'duration', v), lambda st: st.audio.duration),
        ('image.width', 32, lambda st, v: setattr(st.image, 'width', v), lambda st: st.image.width),
        ('source.size', 64, lambda st, v: setattr(st.source, 'size', v), lambda st: st.source.size),
        ('release_time', 63, lambda st, v: setattr(st, 'release_time', v), lambda st: st.release_time),
        ('fee.dewies', 64, lambda st, v: setattr(st.fee, 'dewies', v), lambda st: st.fee.dewies),
        ('fee.pennies', 64, lambda st, v: setattr(st.fee, 'pennies', v), lambda st: st.fee.pennies),
        ('fee.lbc', 64, lambda st, v: setattr(st.fee, 'lbc', Decimal(v) / 10 ** 8), lambda st: st.fee.dewies),
    ]
    for field, bits, setter, getter in targets:
        for v in (2 ** bits, 2 ** bits + 5, 2 ** (bits + 1) + 1, -1 if bits != 63 else -2 ** 63 - 1, 2 ** 70):
            st = L.Claim().stream
            rec.case(f'range:{field}:{v}')
            try:
                setter(st, v)
            except Exception as e:  # noqa
                rec.hit('M2.out_of_range_rejected')
                rec.log('range.rejected_with_' + type(e).__name__)
                continue
            rec.hit('M2.out_of_range_accepted')
            try:
                back = getter(L.Claim.from_bytes(st.claim.to_bytes()).stream)
            except Exception as e:  # noqa
                back = repr(e)
            if back != v:
                rec.violation(f'C16/M2/silent-truncation/{field}', f'{field} = {v} was accepted but reads back {back!r}',
                              {'field': field, 'set': v, 'read': back}, case=lit)


# ======================================================================================
# legacy encodings (M3)
# ======================================================================================
LEGACY_GET = {
    'claim_type': lambda c: c.claim_type,
    'version': lambda c: c.version,
    'title': lambda c: c.stream.title,
    'description': lambda c: c.stream.description,
    'author': lambda c: c.stream.author,
    'license': lambda c: c.stream.license,
    'license_url': lambda c: c.stream.license_url,
    'langtags': lambda c: c.stream.langtags,
    'media_type': lambda c: c.stream.source.media_type,
    'thumbnail_url': lambda c: c.stream.thumbnail.url,
    'sd_hash': lambda c: c.stream.source.sd_hash,
    'has_fee': lambda c: c.stream.has_fee,
    'fee_address': lambda c: c.stream.fee.address,
    'fee_currency': lambda c: c.stream.fee.currency,
    'fee_amount': lambda c: c.stream.fee.amount,
    'fee_lbc': lambda c: c.stream.fee.lbc,
    'fee_dewies': lambda c: c.stream.fee.dewies,
    'mature': lambda c: 'mature' in list(c.stream.tags),
    'public_key': lambda c: c.channel.public_key,
    'is_signed': lambda c: c.is_signed,
    'signing_channel_id': lambda c: c.signing_channel_id,
    'signature': lambda c: bytes(c.signature).hex(),
    'signature_type': lambda c: c.signature_type,
    # the bytes a legacy channel signature was made over: the v1 message without its publisherSignature field (what
    # Output.get_signature_digest hashes for a version-1 claim); a decoded signed legacy claim that misreports them can never validate
    'signed_payload': lambda c: bytes(c.unsigned_payload).hex(),
    'description_prefix': lambda c: c.stream.description,
    'description_suffix': lambda c: c.stream.description,
}
DECIMAL_FIELDS = ('fee_amount', 'fee_lbc')
KEYTYPES = {1: 'NIST256p', 2: 'NIST384p', 3: 'SECP256k1'}


def compress_der_pubkey(der: bytes) -> str:
    """SubjectPublicKeyInfo of an EC point -> compressed SEC1 hex (the bit string ends with 04||X||Y)."""
    if len(der) == 33:
        return der.hex()
    point = der[-65:]
    if point[0] != 4:
        raise AssertionError('harness: not an uncompressed point')
    x, y = point[1:33], point[33:]
    return ('03' if y[-1] & 1 else '02') + x.hex()


def legacy_v1_expect(data):
    """independent reading of a protobuf-v1 claim by the public field numbers of the v1 schema."""
    e = {'version': 1}
    ctype = pbwire.last(data, 2, 0)
    if ctype == 2:
        cert = _msg(data, 4)
        e['claim_type'] = 'channel'
        e['public_key'] = compress_der_pubkey(pbwire.last(cert, 4, b''))
        return e
    st = _msg(data, 3)
    md, src = _msg(st, 2), _msg(st, 3)
    inv = {v: k for k, v in L.lang_num.items()}
    e.update({'claim_type': 'stream', 'title': _s(md, 3), 'description': _s(md, 4), 'author': _s(md, 5), 'license': _s(md, 6),
              'license_url': _s(md, 11), 'thumbnail_url': _s(md, 9), 'media_type': _s(src, 4),
              'sd_hash': pbwire.last(src, 3, b'').hex(), 'mature': bool(pbwire.last(md, 7, 0))})
    lang = pbwire.last(md, 2, 0)
    if lang in inv:
        e['langtags'] = [inv[lang]]
    if pbwire.fields(md, 8):
        fee = _msg(md, 8)
        cur = {1: 'LBC', 2: 'BTC', 3: 'USD'}[pbwire.last(fee, 2, 0)]
        e.update({'has_fee': True, 'fee_currency': cur, 'fee_address': b58enc(pbwire.last(fee, 3, b'')),
                  'fee_amount': str(Decimal(pbwire.float32(pbwire.last(fee, 4))))})
    if pbwire.fields(data, 5):
        sig = _msg(data, 5)
        e.update({'is_signed': True, 'signature': pbwire.last(sig, 3, b'').hex(), 'signing_channel_id': pbwire.last(sig, 4, b'').hex(),
                  'signature_type': KEYTYPES[pbwire.last(sig, 2, 0)]})
        e['signed_payload'] = pbwire.encode([f for f in pbwire.decode(data) if f[0] != 5]).hex()
    else:
        e['is_signed'] = False
    return e


def legacy_json_expect(value):
    e = {'version': 0, 'claim_type': 'stream', 'is_signed': False}
    for k, f in (('title', 'title'), ('description', 'description'), ('author', 'author'), ('license', 'license'),
                 ('license_url', 'license_url')):
        e[f] = value.get(k, '')
    if value.get('thumbnail'):
        e['thumbnail_url'] = value['thumbnail']
    e['media_type'] = value.get('content_type', value.get('content-type')) or 'application/octet-stream'
    e['sd_hash'] = value['sources']['lbry_sd_hash']
    lang = value.get('language', '')
    if lang.lower() == 'english':
        e['langtags'] = ['en']
    elif lang in L.lang_num:
        e['langtags'] = [lang]
    elif not lang:
        e['langtags'] = []
    e['mature'] = bool(value.get('nsfw', False))
    if isinstance(value.get('fee'), dict):
        cur = list(value['fee'])[0]
        e.update({'has_fee': True, 'fee_currency': cur, 'fee_address': value['fee'][cur]['address'],
                  'fee_amount': repr(value['fee'][cur]['amount'])})
    return e


def judge_legacy(rec, name, data, expect, lit, encoding):
    try:
        claim = L.Claim.from_bytes(data)
    except Exception as e:  # noqa
        rec.violation(f'C16/M3/does-not-decode/{encoding}/{type(e).__name__}', f'legacy claim {name} ({len(data)} bytes) raised {e!r}',
                      {'name': name, 'bytes': data, 'exc': repr(e)}, case=lit)
        return
    for field, want in expect.items():
        rec.hit('M3.field_checked')
        try:
            got = LEGACY_GET[field](claim)
        except Exception as e:  # noqa
            rec.violation(f'C16/M3/accessor-raises/{encoding}/{field}/{type(e).__name__}', f'legacy claim {name}: reading {field} raised {e!r}',
                          {'name': name, 'field': field, 'want': want, 'bytes': data}, case=lit)
            continue
        if field in DECIMAL_FIELDS:
            ok = dec_eq(got, Decimal(want))
            got = str(got)
        elif field == 'description_prefix':
            ok = isinstance(got, str) and got.startswith(want)
        elif field == 'description_suffix':
            ok = isinstance(got, str) and got.endswith(want)
        else:
            ok = got == want
        if not ok:
            rec.violation(f'C16/M3/field-differs/{encoding}/{field}', f'legacy claim {name}: {field} reads {short(got)}, recorded {short(want)}',
                          {'name': name, 'field': field, 'got': got, 'want': want, 'bytes': data}, case=lit)


def run_legacy_fixed(rec):
    with open(os.path.join(boot.VERIF, 'fixtures', 'c16_legacy_claims.json')) as f:
        fixtures = json.load(f)['fixtures']
    if len(fixtures) != 6:
        raise AssertionError('harness: fixture file incomplete')
    for fx in fixtures:
        data = bytes.fromhex(fx['hex'])
        rec.case(data, sample={'legacy_fixture': fx['name'], 'first_bytes': data[:40]})
        rec.hit('M3.fixture_checked')
        rec.hit('M3.fixture.' + fx['encoding'] + ('-signed' if fx.get('signed') else '') + ('-certificate' if fx.get('certificate') else ''))
        expect = dict(fx['expect'])
        own = legacy_json_expect(json.loads(data)) if fx['encoding'] == 'json' else legacy_v1_expect(data)
        # the independent reading must agree with what upstream recorded, otherwise the reference is wrong
        for k, v in own.items():
            if k in expect and k not in DECIMAL_FIELDS and expect[k] != v:
                raise AssertionError(f'harness: independent reading of fixture {fx["name"]} field {k} = {v!r} != recorded {expect[k]!r}')
            if k in expect and k in DECIMAL_FIELDS and Decimal(expect[k]) != Decimal(v):
                raise AssertionError(f'harness: independent reading of fixture {fx["name"]} field {k}')
            expect.setdefault(k, v)
        if fx.get('signed') and not own.get('is_signed'):
            raise AssertionError('harness: signed fixture not seen as signed')
        judge_legacy(rec, fx['name'], data, expect, {'fam': 'legacy_fixed'}, fx['encoding'])


MIMES = ['video/mp4', 'application/octet-stream', 'audio/mpeg', 'image/png', 'application/x-msdownload', 'text/plain', 'application/x-zip-compressed']


_ZERO_FEE = [0]


def gen_legacy_amount(r, cur):
    if r.random() < 0.08:
        _ZERO_FEE[0] += 1
        return r.choice([0, 0.0])      # free content published with an explicit zero fee record (seeded break C16-F)
    if cur == 'USD':
        return r.choice([1, 2, 5, 10, 100, 0.5, 0.25, 1.75, 99.5, 12345])
    return r.choice([1, 2, 10, 15, 100, 21000000, 0.5, 0.25, 0.125, 1.5, 1234.75, 0.0078125])


def judge_legacy_json(rec, sub):
    r = random.Random(sub)
    lit = {'fam': 'legacy_json1', 'seed': sub}
    v = {'sources': {'lbry_sd_hash': gen_hex(r, 48)}}
    for k in ('title', 'description', 'author', 'license'):
        if r.random() < 0.92:
            v[k] = gen_text(r)
    if r.random() < 0.5:
        v['license_url'] = gen_text(r)
    if r.random() < 0.5:
        v['thumbnail'] = gen_text(r)
    if r.random() < 0.9:
        v['language'] = r.choice(['en', 'en', 'English', 'english', 'fr', 'es', 'de', 'ja', 'pt', 'zh', 'ru'])
    if r.random() < 0.6:
        v['nsfw'] = r.random() < 0.5
    if r.random() < 0.9:
        v[r.choice(['content_type', 'content-type'])] = r.choice(MIMES)
    if r.random() < 0.5:
        v['ver'] = r.choice(['0.0.1', '0.0.2', '0.0.3'])
    if r.random() < 0.5:
        cur = r.choice(['LBC', 'LBC', 'BTC', 'USD'])
        v['fee'] = {cur: {'amount': gen_legacy_amount(r, cur), 'address': make_address(r, 0x55)[0]}}
    items = list(v.items())
    r.shuffle(items)
    data = json.dumps(dict(items), ensure_ascii=r.random() < 0.5).encode('utf8')
    rec.case(data)
    rec.hit('M3.generated_json_checked')
    judge_legacy(rec, 'generated-json', data, legacy_json_expect(v), lit, 'json')


_KEY_CACHE = {}


def der_pubkey(k):
    if k not in _KEY_CACHE:
        import ecdsa
        vk = ecdsa.SigningKey.from_secret_exponent(k, curve=ecdsa.SECP256k1).verifying_key
        _KEY_CACHE[k] = (vk.to_der(), vk.to_string('compressed').hex())
    return _KEY_CACHE[k]


def judge_legacy_v1(rec, sub):
    r = random.Random(sub)
    lit = {'fam': 'legacy_v11', 'seed': sub}
    enc = pbwire.encode
    if r.random() < 0.15:
        der, compressed = der_pubkey(r.choice([1, 2, 3, 7, 0xdeadbeef, 2 ** 200 + 5]))
        data = enc([(1, 0, 1), (2, 0, 2), (4, 2, enc([(1, 0, 1), (2, 0, 3), (4, 2, der)]))])
        expect = legacy_v1_expect(data)
        if expect['public_key'] != compressed:
            raise AssertionError('harness: DER compression reference disagrees with ecdsa')
        rec.hit('M3.generated_v1_certificate')
    else:
        u = lambda s: s.encode('utf8')
        md = [(1, 0, r.choice([1, 2, 3, 4])), (2, 0, r.choice([1, 1, 1, r.randrange(1, 185)])), (3, 2, u(gen_text(r))),
              (4, 2, u(gen_text(r))), (5, 2, u(gen_text(r))), (6, 2, u(gen_text(r))), (7, 0, int(r.random() < 0.3))]
        if r.random() < 0.5:
            import struct
            cur = r.choice([1, 1, 2, 3])
            amount = gen_legacy_amount(r, {1: 'LBC', 2: 'BTC', 3: 'USD'}[cur])
            md.append((8, 2, enc([(1, 0, 1), (2, 0, cur), (3, 2, make_address(r, 0x55)[1]), (4, 5, struct.pack('<f', amount))])))
        if r.random() < 0.6:
            md.append((9, 2, u(gen_text(r))))
        if r.random() < 0.2:
            md.append((10, 2, u(gen_text(r))))
        if r.random() < 0.5:
            md.append((11, 2, u(gen_text(r))))
        src = [(1, 0, 1), (2, 0, 1), (3, 2, bytes.fromhex(gen_hex(r, 48))), (4, 2, u(r.choice(MIMES)))]
        top = [(1, 0, 1), (2, 0, 1), (3, 2, enc([(1, 0, 1), (2, 2, enc(md)), (3, 2, enc(src))]))]
        if r.random() < 0.5:
            kt = r.choice([1, 2, 3, 3])
            top.append((5, 2, enc([(1, 0, 1), (2, 0, kt), (3, 2, r.randbytes(96 if kt == 2 else 64)), (4, 2, bytes.fromhex(gen_hex(r, 20)))])))
            rec.hit('M3.generated_v1_signed')
        data = enc(top)
        expect = legacy_v1_expect(data)
    rec.case(data)
    rec.hit('M3.generated_v1_checked')
    if _ZERO_FEE[0]:
        rec.hit('M3.generated_zero_fee', _ZERO_FEE[0])
        _ZERO_FEE[0] = 0
    judge_legacy(rec, 'generated-v1', data, expect, lit, 'v1')


# ======================================================================================
# dispatch
# ======================================================================================
def execute(rec, case):
    load()
    fam = case['fam']
    if fam == 'claim':
        run_claims(rec, case['seed'], case['count'])
    elif fam == 'claim1':
        judge_claim_seed(rec, case['seed'])
    elif fam == 'history':
        run_histories(rec, case['seed'], case['count'])
    elif fam == 'history1':
        judge_history_seed(rec, case['seed'])
    elif fam == 'history_fixed':
        run_history_fixed(rec)
    elif fam == 'support_purchase':
        for i in range(case['count']):
            judge_support(rec, case['seed'] * 1000 + i)
            judge_purchase(rec, case['seed'] * 1000 + i)
    elif fam == 'support1':
        judge_support(rec, case['seed'])
    elif fam == 'purchase1':
        judge_purchase(rec, case['seed'])
    elif fam == 'range':
        run_range(rec)
    elif fam == 'legacy_fixed':
        run_legacy_fixed(rec)
    elif fam == 'legacy_gen':
        for i in range(case['count']):
            judge_legacy_json(rec, case['seed'] * 1000 + i)
            judge_legacy_v1(rec, case['seed'] * 1000 + i)
    elif fam == 'legacy_json1':
        judge_legacy_json(rec, case['seed'])
    elif fam == 'legacy_v11':
        judge_legacy_v1(rec, case['seed'])
    elif fam == 'url_gen':
        run_url_gen(rec, L.URL, case['seed'], case['count'])
    elif fam == 'url_lit':
        rec.case('u' + case['u'])
        judge_url(rec, L.URL, case['u'], case.get('cls'))
    elif fam == 'url_fixed':
        for u in URL_FIXED:
            rec.case('u' + u, sample={'url': u} if u in ('lbry://foo\n', 'lbry://@lbry#3f/meow') else None)
            judge_url(rec, L.URL, u, 'fixed')
    elif fam == 'url_enum':
        run_url_enum(rec, L.URL, case)
    elif fam == 'url_cp':
        run_url_cp(rec, L.URL, case)
    else:
        raise AssertionError(f'unknown case family {fam}')

"""C19 — Disk cleanup deletes only when over a limit and never the user's own blobs.  [H+M]

Drive: real Config / SQLiteStorage (file-backed, tmpfs) / BlobManager / DiskSpaceManager.  Blob files are
sparse files of the recorded length; every row is written through the real storage / blob-manager calls
(add_blobs, blob_completed, store_stream, save_downloaded_file, save_published_file, update_blob_ownership,
StreamDescriptor.create_stream for "real publish" streams).  A scenario = a mix of own / downloaded /
network-seeded blobs + 1..4 passes (clean(), _clean(False), _clean(True), or the real cleaning_loop task) with
limits chosen relative to the usage at that moment.
Observe: DiskSpaceManager._clean is wrapped on the instance; before and after every sub-pass the harness takes
an independent snapshot (own sqlite3 connection with its own SQL + os.scandir of the blob directory);
BlobManager.delete_blobs is wrapped to record the deletion order.
Oracle: vlib/ref/cleanup.py (judge of a pre/post snapshot pair; cross-checked on fixed vectors in shard_setup).
  U1 class within its limit (or content limit 0) => none of its blobs deleted      U2 is_mine blobs never deleted
  U3 deleted blobs belong to an over-limit class, lose row AND file; survivors untouched
  U4 enough removable whole-MiB credit => usage within the limit after the pass
  U5 freed whole MiB minus the largest deleted blob < excess; nothing deleted after the goal was reached (order)
  U0 / U6 usage figures and return values: compared, logged only (the statement is silent on them)
  U7 finished rows whose file is gone (mutation lose_files: files removed behind the daemon's back, optionally after a restart
     so that nothing is cached in BlobManager.blobs): their usage has two readings (counted / not counted); U1-U5 are
     reported only when violated under both, and U7 fires when neither reading satisfies all clauses of the pass (or of all
     passes of the scenario: one daemon has one accounting)
  U8 histories with a pass that does not run to its end (pass field `cut`): the clean() call / the cleaning_loop task is cancelled
     (the blob_clean request goes away, the component is stopped) or a storage / blob-manager call of the pass fails, at the n-th
     usage query / blob listing / stop_all_files / delete_blobs call of that pass; later passes run on the SAME DiskSpaceManager.
     The interrupted pass is judged on the must-not-delete clauses only (U1, U2, U3 class, U5).  Every later clean() / loop pass
     that RETURNS is a cleanup pass whether or not the _clean hook fired: a class whose sub-pass the hook did not see is judged
     on the harness's own snapshots around the call (keys C19/U8/clean-returned-without-<class>-pass/<clause>/<history>).  The
     harness never overlaps passes and waits for the interrupted one to be over, so no other pass can be doing that call's work

Fires on the unchanged tree (both are code defects, see the final report of the builder):
  C19/U1/deleted-while-within-limit/content   disk_space_manager.py:51  `a == 0 if not net else avail >= 0` parses as a
      conditional expression: with a non-zero blob_storage_limit the content pass never short-circuits and deletes the
      oldest removable blob on every pass although usage <= limit.
  C19/U3/network-pass-deleted-stream-sd-blob  storage.py:449-455  the network-blob query ("stream_blob.stream_hash is
      null") also returns the sd blobs of stored streams (they have no stream_blob row); when the whole-MiB credits of the
      orphan blobs do not cover the excess (e.g. sub-MiB blobs, limit 0) the pass runs on into the sd blobs of every
      downloaded stream although the content class is unlimited / within its limit.
"""
import asyncio
import atexit
import hashlib
import itertools
import json
import os
import random
import shutil
import sqlite3
import tempfile

from vlib import boot
from vlib.ref import cleanup as ref

ID = 'C19'
LEVEL = 'exploration'
RULE = ('scenario = seeded mix of own / downloaded / network-seeded blobs (0-60 each; sizes 1 B..2 MiB clustered at '
        '1 MiB multiples; spread, tied, zero and future added_on; file rows saved / streaming-only / absent; pending rows; '
        'blobs loaded in the BlobManager or not; ownership set by flags, by update_blob_ownership or by a real '
        'create_stream publish; rare shared blobs, own orphans, >=1 MiB sd blobs) x 1-4 passes (clean / _clean(False) / '
        '_clean(True) / cleaning_loop) x content and network limit each in {0, far below, used-1, used, used+1, far above} '
        'relative to the usage before that pass, optional mutation between passes (blobs / streams added, ownership flipped, '
        'two start-ups with the blob directory away and back, blob files removed behind the running daemon after a plain '
        'restart or without one: oldest / largest / random subset / all), in 1 of 8 scenarios one clean / loop pass that is cut short '
        '(caller cancelled or a storage / blob-manager call failing at the 1st / 2nd usage query, blob listing, stop_all_files or '
        'delete_blobs call) followed by complete passes on the same DiskSpaceManager; plus a fixed catalogue of minimal scenarios.  distinct = distinct scenario specification; non-trivial = at least one blob row and one pass')
ASSUMPTIONS = [
    'classes: own = is_mine; content = not own and data/sd blob of a stored stream; network = not own and in no stored stream',
    'the blob_storage_limit is charged with downloaded + own bytes (as the repository integration test expects); 0 = unlimited; '
    'network_storage_limit 0 = no network blobs allowed',
    'whole-MiB accounting: where floor-of-sum / sum-of-floors / sd-blob / double-count readings differ the oracle uses the '
    'reading that demands least (interval [lo,hi]); a status=finished row whose file is not on disk with the recorded length is '
    'counted in hi and not in lo, and one of the two readings has to satisfy all clauses of a pass (U7)',
    'U4 is demanded only when blobs that are finished, on disk, not own and (content) attached to a stream with a file row are '
    'worth the excess in whole MiB; blobs of streams without a file row are logged, not demanded',
    'return values of clean()/_clean() and the figures of get_space_used_mb() are compared with the model but only logged (U6, U0): '
    'the statement is silent on them',
    'a pass that is cut short (caller cancelled, injected failure of one storage / blob-manager call) is judged on what it must not delete '
    '(U1, U2, U3 class, U5), not on completeness (U3 row+file, U4); a clean() call that returns without raising is a complete pass (U8)',
]
REQUIRED_HITS = [
    'hook._clean_calls', 'hook.delete_blobs_calls', 'pass.removed_more_than_1000_blobs', 'pass.content', 'pass.network', 'op.clean', 'op.content', 'op.network', 'op.loop',
    'U0.checked', 'U1.within_limit_with_removable.content', 'U1.within_limit_with_removable.network',
    'U1.unlimited_with_removable.content', 'U1.exactly_at_limit.content', 'U1.exactly_at_limit.network',
    'U2.checked_pass_deleting_with_own_present', 'U3.deleted_blob_class_checked', 'U3.survivor_checked',
    'U4.demanded.content.limit_nonzero', 'U4.demanded.network.limit_nonzero', 'U4.demanded.network.limit_zero',
    'U5.checked.content', 'U5.checked.network', 'U5.goal_hit_exactly_with_whole_MB_blobs_left', 'U6.checked',
    'U2.checked_against_declared_ownership', 'remount.with_own_blobs', 'U2.checked_against_ownership_recorded_before_restart', 'in.own', 'in.downloaded', 'in.network', 'in.all_three_classes', 'in.stream_without_file_row', 'in.streaming_only_file_row',
    'in.pending_row', 'in.loaded_in_manager', 'in.real_publish', 'in.ownership_flip', 'in.size.lt_1MiB', 'in.size.eq_1MiB',
    'in.size.1MiB_pm1', 'in.size.eq_2MiB', 'in.age_ties', 'in.empty_store', 'repeat.pass_2plus', 'repeat.same_limits',
    'mutate.lose_files', 'mutate.lose_files.after_restart', 'in.finished_row_without_file', 'in.finished_row_without_file.not_loaded_in_manager',
    'U7.checked.content', 'U7.checked.network', 'U7.row_without_file_removed_by_pass.content', 'U7.row_without_file_removed_by_pass.network',
    'U7.holds_only_if_rows_without_file_are_counted',
    'cut.reached.cancel', 'cut.reached.raise', 'cut.reached.op_clean', 'cut.reached.op_loop', 'cut.sub_pass_judged_on_must_not_delete_clauses',
    'cut.later_complete_pass.clean', 'cut.later_complete_pass.loop', 'cut.later_complete_pass_with_U4_demanded.content',
    'cut.later_complete_pass_with_U4_demanded.network',
] + [f'limit.{w}.{c}' for w in ('content', 'network') for c in ('zero', 'far_below', 'minus1', 'equal', 'plus1', 'far_above')]
MIB = 1 << 20
LIMS = ['zero', 'far_below', 'minus1', 'equal', 'plus1', 'far_above']
IV = '00' * 16
KEY = '11' * 16
_TMP = {}


def plan(tier):
    # vlib.core counts the budget in CPU seconds of the shard and caps wall time at 2.5x the budget; the shards here
    # are latency-bound (executor round trips, ~40 % CPU), so the wall cap is what matters: 55 s quick, 850 s thorough
    return {'shards': 16, 'budget_s': 22 if tier == 'quick' else 340}


def shard_setup(rec, tier):
    n = ref.self_test()
    rec.note('reference_model_fixed_vectors_passed', n)
    base = '/dev/shm' if os.path.isdir('/dev/shm') and os.access('/dev/shm', os.W_OK) else None
    _TMP['dir'] = tempfile.mkdtemp(prefix='verif-c19-', dir=base)
    atexit.register(shutil.rmtree, _TMP['dir'], ignore_errors=True)     # also on a harness error


def shard_finish(rec, tier):
    shutil.rmtree(_TMP.pop('dir', ''), ignore_errors=True)


# ------------------------------------------------------------------------------------ scenario specs
def _b(n, t, st='f', ld=0):
    return {'n': n, 't': t, 'st': st, 'ld': ld}


def _stream(sid, kind, sizes, file='saved', how='flags', t0=100, sd_n=300):
    return {'id': sid, 'kind': kind, 'how': how, 'file': file, 'sd_n': sd_n, 'sd_t': t0, 'sd_st': 'f', 'file_t': t0,
            'blobs': [_b(n, t0 + k) for k, n in enumerate(sizes)]}


def _net(sizes, t0=50, first=0):
    return [dict(_b(n, t0 + k), id=f'net{first + k}', mine=0) for k, n in enumerate(sizes)]


def _p(op, c, n, **kw):
    return dict({'op': op, 'c': c, 'n': n, 'hi': 0, 'pre': None}, **kw)


def fixed_specs():
    two = 2 * MIB
    S = []
    # the known mechanism, minimal: one downloaded 1 MiB blob, limit 10 MB / limit exactly at usage / unlimited
    S.append({'streams': [_stream('dl0', 'dl', [MIB])], 'net': [], 'passes': [_p('content', 10, 0)]})
    S.append({'streams': [_stream('dl0', 'dl', [MIB, MIB, MIB])], 'net': [], 'passes': [_p('clean', 3, 0), _p('clean', 'keep', 'keep')]})
    S.append({'streams': [_stream('dl0', 'dl', [MIB, MIB, MIB])], 'net': [], 'passes': [_p('clean', 0, 0), _p('loop', 0, 0)]})
    # over by one / exact hit with whole-MB blobs left (content and network)
    S.append({'streams': [_stream('dl0', 'dl', [MIB, MIB, MIB])], 'net': [], 'passes': [_p('clean', 2, 0), _p('clean', 'keep', 'keep')]})
    S.append({'streams': [_stream('dl0', 'dl', [two, MIB, MIB, MIB])], 'net': [], 'passes': [_p('content', 3, 0)]})
    S.append({'streams': [], 'net': _net([two, MIB, MIB]), 'passes': [_p('network', 0, 2), _p('network', 0, 2)]})
    S.append({'streams': [], 'net': _net([MIB, MIB, MIB]), 'passes': [_p('clean', 0, 0)]})
    S.append({'streams': [], 'net': _net([MIB, MIB]), 'passes': [_p('clean', 0, 2), _p('network', 0, 3), _p('loop', 0, 2)]})
    # own blobs older than the downloaded ones, limit below usage
    S.append({'streams': [_stream('own0', 'own', [MIB, MIB], t0=10), _stream('dl0', 'dl', [MIB, MIB], t0=500)], 'net': [],
              'passes': [_p('clean', 3, 0), _p('clean', 2, 0), _p('clean', 1, 0)]})
    # sub-MiB network blobs over a zero limit next to a downloaded stream (its sd blob is not a network blob)
    S.append({'streams': [_stream('dl0', 'dl', [MIB])], 'net': _net([MIB // 2, MIB // 2, MIB // 2]), 'passes': [_p('network', 0, 0)]})
    # the repository's integration scenario: 2, 3, 3, 2 MiB streams, the second own, limit 6
    S.append({'streams': [_stream('s1', 'dl', [two, 16], how='flip', t0=100), _stream('s2', 'own', [two, MIB + 16], t0=200),
                          _stream('s3', 'dl', [two, MIB + 16], how='flip', t0=300), _stream('s4', 'dl', [two, 16], how='flip', t0=400)],
              'net': [], 'passes': [_p('clean', 0, 0), _p('clean', 6, 0), _p('clean', 6, 0)]})
    # over the limit but the only foreign blobs belong to a stream without a file row
    S.append({'streams': [_stream('dl0', 'dl', [MIB, MIB], file='none'), _stream('own0', 'own', [MIB])], 'net': [],
              'passes': [_p('clean', 1, 0)]})
    # two start-ups before the pass: one while the blob directory is not visible (rows go to pending), one that sees the files again
    # (rows re-registered as finished by the start-up reconciliation): what the user published stays the user's
    S.append({'streams': [_stream('own0', 'own', [MIB, MIB], t0=10), _stream('dl0', 'dl', [MIB, MIB], t0=500)], 'net': _net([MIB]),
              'passes': [_p('clean', 1, 0, pre={'kind': 'remount'}), _p('clean', 1, 0)]})
    S.append({'streams': [{'id': 'ownR', 'kind': 'own', 'how': 'real', 'file': 'saved', 'plain': 2 * MIB + 5},
                          _stream('dl0', 'dl', [MIB, MIB, MIB], t0=10)], 'net': [],
              'passes': [_p('clean', 4, 0), _p('clean', 1, 0, pre={'kind': 'remount'})]})
    # empty store, every limit class
    S.append({'streams': [], 'net': [], 'passes': [_p('clean', 0, 0), _p('clean', 5, 5), _p('loop', 1, 1)]})
    # all three classes, both over, four identical passes
    S.append({'streams': [_stream('own0', 'own', [two, MIB], t0=5), _stream('dl0', 'dl', [MIB, two, MIB - 1, MIB + 1], t0=50),
                          _stream('dl1', 'dl', [two, two], file='streaming', t0=20)],
              'net': _net([two, MIB + 1, MIB - 1, 100, MIB]),
              'passes': [_p('clean', 6, 2), _p('clean', 'keep', 'keep'), _p('clean', 'keep', 'keep'), _p('clean', 'keep', 'keep')]})
    # real publish next to a download, limit between
    S.append({'streams': [{'id': 'ownR', 'kind': 'own', 'how': 'real', 'file': 'saved', 'plain': 2 * MIB + 5},
                          _stream('dl0', 'dl', [MIB, MIB, MIB], t0=10)], 'net': _net([MIB]),
              'passes': [_p('clean', 4, 1), _p('clean', 3, 0)]})
    # blob files removed behind the running daemon (rows stay 'finished' until the next start-up).  After a restart, so that no blob
    # object is cached; the rows without a file are neither all older nor all newer than the blobs on disk.  8 MiB on disk, 12 recorded
    s = _stream('dl0', 'dl', [two] * 6)
    for b in s['blobs']:
        b['ld'] = 1
    S.append({'streams': [s], 'net': [],
              'passes': [_p('clean', 8, 0, pre={'kind': 'lose_files', 'restart': 1, 'labels': ['dl0.1', 'dl0.5']}),
                         _p('clean', 'keep', 'keep'), _p('clean', 6, 0)]})
    # the same for the network class (largest first, then oldest), no restart: 6 MiB on disk, 9 recorded
    S.append({'streams': [], 'net': _net([two, two, two, MIB, MIB, MIB]),
              'passes': [_p('network', 0, 6, pre={'kind': 'lose_files', 'restart': 0, 'labels': ['net1', 'net5']}),
                         _p('clean', 0, 'keep'), _p('clean', 0, 3)]})
    # the oldest download and the oldest seeded blob lost their files after a restart, limits lowered to what is left on disk
    S.append({'streams': [_stream('old', 'dl', [two, two], t0=10), _stream('new', 'dl', [two] * 4, t0=500)], 'net': _net([two] * 3),
              'passes': [_p('clean', 0, 100), _p('clean', 8, 4, pre={'kind': 'lose_files', 'restart': 1, 'labels': ['old.0', 'old.1', 'net0']}),
                         _p('clean', 'keep', 'keep'), _p('clean', 6, 2)]})
    # files lost, a pass, then a real start-up sequence (the rows are demoted to pending), further passes
    S.append({'streams': [_stream('dl0', 'dl', [MIB] * 4)], 'net': _net([MIB, MIB]),
              'passes': [_p('clean', 3, 1, pre={'kind': 'lose_files', 'restart': 0, 'labels': ['dl0.3', 'net1']}),
                         _p('clean', 'keep', 'keep', pre={'kind': 'remount'}), _p('clean', 2, 0)]})
    # a pass that does not run to its end, then complete passes on the same DiskSpaceManager (U8).  The blob_clean call is cancelled
    # while it waits for its first usage query; own blobs older than the downloaded ones; the third pass finds nothing left to do
    S.append({'streams': [_stream('own0', 'own', [MIB], t0=10), _stream('dl0', 'dl', [MIB] * 5, t0=500)], 'net': _net([MIB, MIB]),
              'passes': [_p('clean', 3, 5, cut=_cut('cancel', 'usage')), _p('clean', 'keep', 'keep'), _p('clean', 'keep', 'keep')]})
    # cancelled at the moment the pass stops the files (just before deleting); the next pass comes from the periodic task
    S.append({'streams': [_stream('own0', 'own', [MIB], t0=10), _stream('dl0', 'dl', [two, two, MIB], t0=500)], 'net': [],
              'passes': [_p('clean', 3, 0, cut=_cut('cancel', 'stop_files')), _p('loop', 'keep', 'keep'), _p('clean', 2, 0)]})
    # the content pass completes, the network pass is cancelled at its usage query / fails at its blob listing
    S.append({'streams': [_stream('dl0', 'dl', [MIB] * 4)], 'net': _net([MIB] * 4),
              'passes': [_p('clean', 3, 2, cut=_cut('cancel', 'usage', 2)), _p('clean', 'keep', 'keep'), _p('clean', 2, 1)]})
    S.append({'streams': [_stream('dl0', 'dl', [MIB] * 4)], 'net': _net([two, MIB, MIB]),
              'passes': [_p('clean', 3, 0, cut=_cut('raise', 'list', 2)), _p('clean', 'keep', 'keep')]})
    # a call of the pass fails: database locked at the usage query / at stop_all_files, the first blob file cannot be removed
    S.append({'streams': [_stream('dl0', 'dl', [MIB] * 4)], 'net': _net([MIB] * 3),
              'passes': [_p('clean', 2, 1, cut=_cut('raise', 'usage')), _p('clean', 'keep', 'keep')]})
    S.append({'streams': [_stream('dl0', 'dl', [MIB] * 4)], 'net': _net([MIB] * 3),
              'passes': [_p('clean', 2, 1, cut=_cut('raise', 'stop_files')), _p('loop', 'keep', 'keep')]})
    S.append({'streams': [_stream('own0', 'own', [two], t0=10), _stream('dl0', 'dl', [MIB] * 4, t0=500)], 'net': _net([MIB] * 3),
              'passes': [_p('clean', 4, 1, cut=_cut('raise', 'delete')), _p('clean', 'keep', 'keep'), _p('clean', 'keep', 'keep')]})
    # the periodic task is stopped while its pass lists the blobs / fails in its pass; started again later
    S.append({'streams': [_stream('dl0', 'dl', [MIB] * 4)], 'net': _net([MIB] * 3),
              'passes': [_p('loop', 2, 1, cut=_cut('cancel', 'list')), _p('loop', 'keep', 'keep'), _p('clean', 1, 0)]})
    S.append({'streams': [_stream('dl0', 'dl', [MIB] * 4)], 'net': _net([MIB] * 3),
              'passes': [_p('loop', 2, 1, cut=_cut('raise', 'stop_files', 2)), _p('clean', 'keep', 'keep')]})
    # cancelled while the blobs are being deleted (files first, then rows)
    S.append({'streams': [_stream('dl0', 'dl', [MIB] * 5)], 'net': _net([MIB] * 3),
              'passes': [_p('clean', 3, 1, cut=_cut('cancel', 'delete')), _p('clean', 'keep', 'keep'), _p('clean', 2, 0)]})
    return S


CUT_AT = ['usage', 'list', 'stop_files', 'delete']


def _cut(how, at, nth=1):
    return {'how': how, 'at': at, 'nth': nth}


def add_cut(spec, r):
    """one clean / loop pass of the scenario does not run to its end; at least one complete clean / loop pass follows"""
    ps = spec['passes']
    i = r.randrange(len(ps))
    p = ps[i]
    if p['op'] not in ('clean', 'loop'):
        p['op'] = r.choice(['clean', 'clean', 'loop'])
    p['cut'] = _cut(r.choice(['cancel'] * 2 + ['raise']), r.choice(CUT_AT + ['usage', 'stop_files']), 1 if r.random() < .7 else 2)
    if r.random() < .8:     # mostly over a limit, so that the later calls of the pass are reached
        p['c'], p['n'] = r.choice(['far_below', 'minus1', 'minus1', 'equal']), r.choice(['zero', 'far_below', 'minus1', 'equal'])
    if i == len(ps) - 1 or r.random() < .7:
        ps.insert(i + 1, {'op': r.choice(['clean'] * 3 + ['loop']), 'c': 'keep', 'n': 'keep', 'hi': 0, 'pre': None})
    return spec


SIZES_NEAR = [MIB - 1, MIB, MIB + 1, 2 * MIB - 1, 2 * MIB, MIB, 2 * MIB, MIB]
SIZES_SMALL = [1, 2, 100, 4096, 65536, MIB // 2, MIB // 2 + 1]


def pick_size(r):
    x = r.random()
    if x < .5:
        return r.choice(SIZES_NEAR)
    if x < .68:
        return r.choice(SIZES_SMALL)
    if x < .8:
        return r.choice([MIB + MIB // 2, MIB + 1000, 2 * MIB - 1000, MIB - 1000])
    return r.randrange(1, 2 * MIB + 1)


def make_spec(r, scale):
    mode = r.choice(['spread'] * 5 + ['few'] * 3 + ['mixed'] * 2)
    few = [r.randrange(1, 10 ** 9) for _ in range(3)]

    def age():
        if mode == 'spread':
            return r.randrange(1, 10 ** 9)
        if mode == 'few':
            return r.choice(few)
        return r.choice([0, 1, r.randrange(1, 10 ** 9), r.randrange(3 * 10 ** 9, 4 * 10 ** 9)])
    if scale == 'tiny':
        n_dl, n_own, per, n_net = r.randrange(0, 3), r.randrange(0, 2), (1, 3), r.randrange(0, 4)
    elif scale == 'small':
        n_dl, n_own, per, n_net = r.randrange(0, 4), r.randrange(0, 3), (1, 6), r.randrange(0, 9)
    else:
        n_dl, n_own, per, n_net = r.randrange(1, 7), r.randrange(0, 5), (1, 14), r.randrange(0, 61)
    counter = itertools.count()

    def mk_stream(kind):
        sid = f"{'own' if kind == 'own' else 'dl'}{next(counter)}"
        if kind == 'own' and scale != 'medium' and r.random() < .12:
            return {'id': sid, 'kind': 'own', 'how': 'real', 'file': 'saved',
                    'plain': r.choice([1, MIB, 2 * MIB - 1, 2 * MIB + 5, 3 * MIB, r.randrange(1, 3 * MIB)])}
        nb = r.randrange(per[0], per[1] + 1)
        sd_n = r.choice([150, 300, 1000, 5000, 20000])
        if r.random() < .02:
            sd_n = r.choice([MIB, MIB + 5])
        return {'id': sid, 'kind': kind, 'how': r.choice(['flags'] * 4 + ['flip']),
                'file': r.choice(['saved'] * 5 + ['streaming'] * 2 + ['none']),
                'sd_n': sd_n, 'sd_t': age(), 'sd_st': 'f' if r.random() < .97 else 'p', 'file_t': age(),
                'blobs': [_b(pick_size(r), age(), 'f' if r.random() < .93 else 'p', int(r.random() < .2)) for _ in range(nb)]}
    kinds = ['dl'] * n_dl + ['own'] * n_own
    r.shuffle(kinds)
    streams = [mk_stream(k) for k in kinds]
    synth = [s for s in streams if s['how'] != 'real']
    if len(synth) >= 2 and r.random() < .06:      # a blob listed by two streams
        a, b = r.sample(synth, 2)
        src = a['blobs'][0]
        b['blobs'].append(dict(src, ref=f"{a['id']}.0"))
    nidx = itertools.count()

    def mk_net():
        return dict(_b(pick_size(r), age(), 'f' if r.random() < .95 else 'p', int(r.random() < .2)),
                    id=f'net{next(nidx)}', mine=int(r.random() < .01))
    net = [mk_net() for _ in range(n_net)]
    passes = []
    for i in range(r.randrange(1, 5)):
        p = {'op': r.choice(['clean'] * 5 + ['content'] * 2 + ['network'] * 2 + ['loop']),
             'c': r.choice(LIMS), 'n': r.choice(LIMS), 'hi': int(r.random() < .5), 'pre': None}
        if i and r.random() < .35:
            p['c'] = p['n'] = 'keep'
        if i and r.random() < .3:
            k = r.random()
            if k < .4:
                p['pre'] = {'kind': 'add_net', 'blobs': [mk_net() for _ in range(r.randrange(1, 5))]}
            elif k < .7:
                p['pre'] = {'kind': 'add_stream', 'stream': mk_stream(r.choice(['dl', 'dl', 'own']))}
            elif streams:
                p['pre'] = {'kind': 'flip', 'sid': r.choice(streams)['id'], 'to': r.randrange(2)}
        if p['pre'] is None and r.random() < .12:
            p['pre'] = {'kind': 'remount'}
        if p['pre'] is None and r.random() < .13:
            p['pre'] = {'kind': 'lose_files', 'restart': int(r.random() < .5), 'mode': r.choice(['random'] * 5 + ['oldest'] * 2 + ['largest', 'all']),
                        'frac': r.choice([.15, .3, .5, .8]), 'sd': int(r.random() < .15), 'seed': r.getrandbits(32)}
        passes.append(p)
    return {'streams': streams, 'net': net, 'passes': passes}


def gen_cases(rng, tier, shard, nshards):
    if shard == 0:      # minimal scenarios first, so that the first witness of a mechanism is a small one
        for i, spec in enumerate(fixed_specs()):
            yield {'fam': 'spec', 'name': f'fixed{i}', 'spec': spec}
    n = 400 if tier == 'quick' else 14000
    for i in range(n):
        x = rng.random()
        scale = 'tiny' if x < .4 else ('small' if x < .85 else 'medium')
        case = {'fam': 'rand', 'seed': rng.getrandbits(48), 'scale': scale}
        if i % 8 == 3:
            case['cut'] = 1
        yield case
    # stores whose excess takes more than a thousand blobs to clear (the user lowers a limit by gigabytes; seeded break C19-K capped one
    # pass at 1000 blobs).  Generated after everything else so that the older cases stay what they were
    many = list(many_specs(rng, 3 if tier == 'quick' else 16))
    for i, spec in enumerate(many):
        if (i + 1) % nshards == shard:
            yield {'fam': 'spec', 'name': f'many{i}', 'spec': spec}


def many_specs(rng, count):
    for i in range(count):
        n = rng.randrange(1100, 1700)
        sizes = [MIB] * n if i % 3 == 0 else [rng.choice([MIB, MIB, MIB + 5, 2 * MIB, MIB // 2, MIB - 1]) for _ in range(n)]
        if i % 3 == 1:
            yield {'streams': [_stream('dl0', 'dl', sizes[:n // 2], t0=1000), _stream('dl1', 'dl', sizes[n // 2:], t0=5000)], 'net': [],
                   'passes': [_p('content', rng.choice([1, 20, 90]), 0), _p('clean', 'keep', 'keep')]}
        else:
            yield {'streams': [_stream('dl0', 'dl', [MIB])], 'net': _net(sizes),
                   'passes': [_p('network' if i % 2 else 'clean', 0, rng.choice([0, 7, 60])), _p('clean', 'keep', 'keep')]}


# ------------------------------------------------------------------------------------ harness
def H(label):
    return hashlib.sha384(('c19:' + label).encode()).hexdigest()


class Env:
    pass


def snapshot(env):
    c = env.conn
    return {
        'blobs': {h: [n, st, m, a] for h, n, st, m, a in
                  c.execute('select blob_hash, blob_length, status, is_mine, added_on from blob').fetchall()},
        'streams': {sh: sd for sh, sd in c.execute('select stream_hash, sd_hash from stream').fetchall()},
        'stream_blobs': [[sh, bh] for sh, bh in
                         c.execute('select stream_hash, blob_hash from stream_blob where blob_hash is not null').fetchall()],
        'files': [sh for (sh,) in c.execute('select stream_hash from file where stream_hash is not null').fetchall()],
        'disk': {e.name: e.stat().st_size for e in os.scandir(env.blob_dir) if e.is_file()},
    }


def sparse(env, h, n):
    p = os.path.join(env.blob_dir, h)
    with open(p, 'wb'):
        pass
    os.truncate(p, n)


async def add_net_blob(env, b):
    h = H(b['id'])
    env.labels[h] = b['id']
    if b.get('mine', 0):
        env.published.add(h)
    row = (h, b['n'], b['t'], b.get('mine', 0))
    if b['st'] != 'f':
        await env.storage.add_blobs(row, finished=False)
        return
    sparse(env, h, b['n'])
    if b['ld']:
        blob = env.bm.get_blob(h, b['n'], is_mine=bool(b.get('mine', 0)))
        blob.added_on = b['t']
        await env.bm.blob_completed(blob)
    else:
        await env.storage.add_blobs(row, finished=True)


async def add_real_stream(env, s):
    from lbry.stream.descriptor import StreamDescriptor
    path = os.path.join(env.dl, s['id'] + '.bin')
    with open(path, 'wb') as f:
        f.write(random.Random(f"{s['id']}:{s['plain']}").randbytes(s['plain']))
    tasks = []

    def cb(blob):
        t = env.bm.blob_completed(blob)
        tasks.append(t)
        return t
    ivs = (bytes([i % 256]) * 16 for i in itertools.count(1))
    desc = await StreamDescriptor.create_stream(env.loop, env.blob_dir, path, key=hashlib.sha256(s['id'].encode()).digest()[:16], iv_generator=ivs,
                                                blob_completed_callback=cb)
    # exactly StreamManager.create: the stream is stored right away, while the blob_completed tasks of the blobs may still be queued
    # (which row is written first decides whose is_mine sticks; seeded break C19-F lost the flag of the descriptor blob on that path)
    await env.storage.store_stream(env.bm.get_blob(desc.sd_hash, is_mine=True), desc)
    await env.storage.save_published_file(desc.stream_hash, os.path.basename(path), os.path.dirname(path), 0)
    for _ in range(3):
        await asyncio.sleep(0)
    await asyncio.gather(*tasks)
    env.published.update([desc.sd_hash] + [b.blob_hash for b in desc.blobs[:-1]])
    env.blobs_of[s['id']] = [desc.sd_hash] + [b.blob_hash for b in desc.blobs[:-1]]
    for k, b in enumerate(desc.blobs[:-1]):
        env.labels[b.blob_hash] = f"{s['id']}.{k}"
    env.labels[desc.sd_hash] = s['id'] + '.sd'
    env.sd_of[s['id']] = desc.sd_hash


async def add_stream(env, s):
    from lbry.blob.blob_info import BlobInfo
    from lbry.stream.descriptor import StreamDescriptor
    if s['how'] == 'real':
        return await add_real_stream(env, s)
    own = s['kind'] == 'own'
    ctor_mine = own if s['how'] == 'flags' else (not own)
    sid = s['id']
    infos, fin, loaded = [], [], []
    for k, b in enumerate(s['blobs']):
        label = b.get('ref') or f'{sid}.{k}'
        h = H(label)
        env.labels.setdefault(h, label)
        infos.append(BlobInfo(k, b['n'], IV, b['t'], h, ctor_mine))
        if 'ref' in b or b['st'] != 'f':
            continue
        sparse(env, h, b['n'])
        (loaded if b['ld'] else fin).append((h, b['n'], b['t'], int(ctor_mine)))
    infos.append(BlobInfo(len(infos), 0, IV, s['sd_t'], None, ctor_mine))
    sd_hash, stream_hash = H(sid + '.sd'), H(sid + '.stream')
    env.labels[sd_hash] = sid + '.sd'
    env.sd_of[sid] = sd_hash
    desc = StreamDescriptor(env.loop, env.blob_dir, sid, KEY, sid, infos, stream_hash, sd_hash)
    if s['sd_st'] == 'f':
        sparse(env, sd_hash, s['sd_n'])
    sd_blob = env.bm.get_blob(sd_hash, s['sd_n'], is_mine=ctor_mine)
    sd_blob.added_on = s['sd_t']

    async def complete():
        if fin:
            await env.storage.add_blobs(*fin, finished=True)
        for h, n, t, m in loaded:
            blob = env.bm.get_blob(h, n, is_mine=bool(m))
            blob.added_on = t
            await env.bm.blob_completed(blob)

    async def complete_sd():
        if s['sd_st'] == 'f':
            await env.bm.blob_completed(sd_blob)
    if ctor_mine:      # publish order: data blobs, sd blob, then the stream
        await complete()
        await complete_sd()
        await env.storage.store_stream(sd_blob, desc)
    else:              # download order: sd blob, stream, then data blobs
        await complete_sd()
        await env.storage.store_stream(sd_blob, desc)
        await complete()
    if s['file'] != 'none':
        fn, dd = (sid + '.bin', env.dl) if s['file'] == 'saved' else (None, None)
        save = env.storage.save_published_file if own else env.storage.save_downloaded_file
        await save(stream_hash, fn, dd, 0.0, added_on=s['file_t'])
    if s['how'] == 'flip':
        await env.storage.update_blob_ownership(sd_hash, own)
    mine_hashes = [sd_hash] + [i.blob_hash for i in infos[:-1]]
    env.blobs_of[sid] = mine_hashes
    for h in mine_hashes:
        env.listed_by[h] = env.listed_by.get(h, 0) + 1
    if own:
        env.published.update(mine_hashes)


def pick_lost(env, snap, m):
    """which blob files disappear: finished rows whose file is there now, named by label or drawn from the mutation's own seed"""
    ix = ref.Index(snap)
    by_label = {env.labels.get(h, h[:8]): h for h, x in ix.info.items() if x['finished'] and x['on_disk']}
    if 'labels' in m:
        return [by_label[lab] for lab in m['labels'] if lab in by_label]
    cand = [h for lab, h in sorted(by_label.items()) if m['sd'] or not ix.info[h]['is_sd']]
    if m['mode'] == 'all':
        return cand
    if m['mode'] in ('oldest', 'largest'):
        foreign = [h for h in cand if not ix.info[h]['own']]
        foreign.sort(key=lambda h: (ix.info[h]['added_on'], ix.info[h]['len']) if m['mode'] == 'oldest' else (-ix.info[h]['len'], ix.info[h]['added_on']))
        return foreign[:max(1, int(len(foreign) * m['frac']))]
    r = random.Random(m['seed'])
    return [h for h in cand if r.random() < m['frac']]


def resolve(cls, use, pick_hi, prev):
    if cls == 'keep':
        return prev
    if isinstance(cls, int):
        return cls
    used = use[1] if pick_hi else use[0]
    return {'zero': 0, 'far_below': used // 3 if used >= 3 else (1 if used >= 2 else 0), 'minus1': max(0, used - 1),
            'equal': used, 'plus1': used + 1, 'far_above': used * 2 + 37}[cls]


def brief(env, snap):
    ix = ref.Index(snap)
    by = {}
    for h, x in ix.info.items():
        lab = env.labels.get(h, h[:8])
        grp = lab.split('.')[0] if '.' in lab else 'net'
        by.setdefault(grp, []).append((lab, x))
    parts = []
    for grp in sorted(by):
        items = sorted(by[grp], key=lambda t: t[0])
        own = any(x['own'] for _, x in items)
        parts.append(f"{grp}{'(own)' if own else ''}:" + ','.join(
            f"{x['len']}{'' if x['finished'] else 'p'}{'*sd' if x['is_sd'] else ''}" for _, x in items[:8]) +
            ('..' if len(items) > 8 else ''))
    s = ' '.join(parts)
    return s if len(s) <= 420 else s[:420] + '...'


def table(env, snap):
    ix = ref.Index(snap)
    rows = []
    for h, x in sorted(ix.info.items(), key=lambda t: env.labels.get(t[0], t[0])):
        rows.append([env.labels.get(h, h[:8]), x['len'], x['added_on'], 'own' if x['own'] else x['cls'],
                     'finished' if x['finished'] else 'pending', 'sd' if x['is_sd'] else '',
                     'file-row' if x['has_file_row'] else 'no-file-row', 'on-disk' if x['on_disk'] else 'not-on-disk'])
    return rows[:150]


def input_hits(rec, env, spec, snap):
    ix = ref.Index(snap)
    cl = {x['cls'] for x in ix.info.values()}
    if not ix.info:
        rec.hit('in.empty_store')
    for c, nme in (('own', 'own'), ('content', 'downloaded'), ('network', 'network')):
        if c in cl:
            rec.hit('in.' + nme)
    if len(cl) == 3:
        rec.hit('in.all_three_classes')
    files = set(snap['files'])
    if any(sh not in files for sh in snap['streams']):
        rec.hit('in.stream_without_file_row')
    if any(s.get('file') == 'streaming' for s in spec['streams']):
        rec.hit('in.streaming_only_file_row')
    if any(not x['finished'] for x in ix.info.values()):
        rec.hit('in.pending_row')
    if env.bm.blobs:
        rec.hit('in.loaded_in_manager')
    if any(s['how'] == 'real' for s in spec['streams']):
        rec.hit('in.real_publish')
    if any(s['how'] == 'flip' for s in spec['streams']):
        rec.hit('in.ownership_flip')
    if any(len(x['streams']) > 1 for x in ix.info.values()):
        rec.hit('in.shared_blob')
    if any(x['own'] and not x['streams'] and not x['is_sd'] for x in ix.info.values()):
        rec.hit('in.own_orphan')
    if ix.big_foreign_sd():
        rec.hit('in.big_sd_blob')
    sizes = [x['len'] for x in ix.info.values() if not x['is_sd']]
    for nme, f in (('lt_1MiB', lambda n: n < MIB - 1), ('eq_1MiB', lambda n: n == MIB), ('1MiB_pm1', lambda n: abs(n - MIB) == 1),
                   ('eq_2MiB', lambda n: n == 2 * MIB), ('between', lambda n: MIB + 1 < n < 2 * MIB)):
        if any(f(n) for n in sizes):
            rec.hit('in.size.' + nme)
    ages = [x['added_on'] for x in ix.info.values()]
    if len(set(ages)) < len(ages):
        rec.hit('in.age_ties')


def execute(rec, case):
    boot.import_lbry()
    if 'dir' not in _TMP:
        shard_setup(rec, rec.tier)
    if case['fam'] == 'spec':
        spec = case['spec']
    else:
        spec = make_spec(random.Random(case['seed']), case['scale'])
        if case.get('cut'):
            spec = add_cut(spec, random.Random(case['seed'] ^ 0xC19))
    loop = asyncio.new_event_loop()
    try:
        loop.run_until_complete(asyncio.wait_for(_run(rec, case, spec), 600))
    finally:
        try:
            loop.run_until_complete(loop.shutdown_default_executor())
        finally:
            loop.close()


async def _run(rec, case, spec):
    from lbry.conf import Config
    from lbry.extras.daemon.storage import SQLiteStorage
    from lbry.blob.blob_manager import BlobManager
    from lbry.blob.disk_space_manager import DiskSpaceManager
    env = Env()
    env.loop = asyncio.get_running_loop()
    env.tmp = tempfile.mkdtemp(prefix='s-', dir=_TMP['dir'])
    env.blob_dir = os.path.join(env.tmp, 'blobfiles')
    env.dl = os.path.join(env.tmp, 'downloads')
    os.mkdir(env.blob_dir)
    os.mkdir(env.dl)
    env.labels, env.sd_of = {}, {}
    env.own_at_restart = None
    env.cut, env.cut_before = None, None                           # the interruption armed for the running pass / the last one that happened
    env.published, env.blobs_of, env.listed_by = set(), {}, {}     # what the harness declared as the user's own through the API
    env.conn = None
    storage = None
    try:
        conf = Config(data_dir=env.tmp, wallet_dir=env.tmp, download_dir=env.dl, blob_storage_limit=0, network_storage_limit=0)
        dbpath = os.path.join(env.tmp, 'lbrynet.sqlite')
        storage = env.storage = SQLiteStorage(conf, dbpath)
        bm = env.bm = BlobManager(env.loop, env.blob_dir, storage, conf)
        await storage.open()
        env.conn = sqlite3.connect(dbpath, isolation_level=None)
        dsm = DiskSpaceManager(conf, storage, bm)
        records, orders = [], []
        orig_clean, orig_delete = dsm._clean, bm.delete_blobs

        async def hooked_clean(is_network_blob=False):
            rec.hit('hook._clean_calls')
            pre = snapshot(env)
            del orders[:]
            lims = (conf.blob_storage_limit, conf.network_storage_limit)
            ret = err = None
            try:
                ret = await orig_clean(is_network_blob)
            except Exception as e:  # noqa  (judged below through the snapshots, re-raised to the caller)
                err = e
            except asyncio.CancelledError as e:
                if not (env.cut and env.cut['fired']):      # not the harness's own interruption of this pass
                    raise
                err = e
            records.append({'is_net': bool(is_network_blob), 'pre': pre, 'post': snapshot(env), 'ret': ret, 'err': err,
                            'order': [h for lst in orders for h in lst], 'lims': lims,
                            'cut': bool(err is not None and env.cut and env.cut['fired'])})
            if err is not None:
                raise err
            return ret

        async def hooked_delete(blob_hashes, delete_from_db=True):
            rec.hit('hook.delete_blobs_calls')
            orders.append(list(blob_hashes))
            return await orig_delete(blob_hashes, delete_from_db)
        dsm._clean = hooked_clean
        bm.delete_blobs = hooked_delete

        for s in spec['streams']:
            await add_stream(env, s)
        for b in spec['net']:
            await add_net_blob(env, b)
        snap0 = snapshot(env)
        input_hits(rec, env, spec, snap0)
        rec.case(json.dumps(spec, sort_keys=True), nontrivial=bool(snap0['blobs']) and bool(spec['passes']),
                 sample={'case': {k: v for k, v in case.items() if k != 'spec'}, 'state': brief(env, snap0),
                         'passes': [[p['op'], p['c'], p['n']] for p in spec['passes']]})
        prev = (0, 0)
        name = lambda h: env.labels.get(h, h[:8])  # noqa
        # U7 over the passes of the scenario, per storage class
        one_reading = {c: {'counted': None, 'not_counted': None, 'reported': False} for c in ('content', 'network')}
        for pi, p in enumerate(spec['passes']):
            if p.get('pre'):
                m = p['pre']
                rec.hit('mutate.' + m['kind'])
                if m['kind'] == 'add_net':
                    for b in m['blobs']:
                        await add_net_blob(env, b)
                elif m['kind'] == 'add_stream':
                    await add_stream(env, m['stream'])
                elif m['kind'] == 'flip' and m['sid'] in env.sd_of:
                    await storage.update_blob_ownership(env.sd_of[m['sid']], bool(m['to']))
                    env.own_at_restart = None       # the user re-declared ownership: the database is the record again
                    (env.published.update if m['to'] else env.published.difference_update)(env.blobs_of.get(m['sid'], []))
                elif m['kind'] == 'remount':
                    # ownership as recorded when the daemon stops: nothing a restart does may take it away (seeded break C19-C:
                    # the start-up re-registration replaced the rows, is_mine included)
                    before = snapshot(env)
                    env.own_at_restart = {h for h, row in before['blobs'].items() if row[2]}
                    away = env.blob_dir + '.away'
                    bm.stop()
                    os.rename(env.blob_dir, away)
                    os.mkdir(env.blob_dir)
                    await bm.setup()
                    bm.stop()
                    os.rmdir(env.blob_dir)
                    os.rename(away, env.blob_dir)
                    await bm.setup()
                    after = snapshot(env)
                    if any(row[1] == 'finished' for h, row in before['blobs'].items() if h in before['disk']) and \
                            [h for h, row in before['blobs'].items() if row[1] == 'finished' and h in before['disk']
                             and after['blobs'].get(h, [0, ''])[1] != 'finished']:
                        rec.log('remount.finished_blob_not_finished_again')
                    if env.own_at_restart:
                        rec.hit('remount.with_own_blobs')
                elif m['kind'] == 'lose_files':
                    # blob files disappear behind the running daemon (disk tidied by hand, partial restore): the rows stay 'finished' until
                    # the next start-up.  restart=1: a plain restart first, so that no blob object is cached in BlobManager.blobs
                    if m['restart']:
                        bm.stop()
                        await bm.setup()
                        rec.hit('mutate.lose_files.after_restart')
                    victims = pick_lost(env, snapshot(env), m)
                    for h in victims:
                        os.remove(os.path.join(env.blob_dir, h))
                    if victims:
                        rec.hit('in.finished_row_without_file')
                    if any(h not in bm.blobs for h in victims):
                        rec.hit('in.finished_row_without_file.not_loaded_in_manager')
            cur = snapshot(env)
            use = ref.Index(cur).usage()
            climit = resolve(p['c'], use['content'], p['hi'], prev[0])
            nlimit = resolve(p['n'], use['network'], p['hi'], prev[1])
            for w, cls, lim, u in (('content', p['c'], climit, use['content']), ('network', p['n'], nlimit, use['network'])):
                if isinstance(cls, str) and cls != 'keep':
                    rec.hit(f'limit.{w}.{cls}')
                rel = 'zero' if lim == 0 else ('within' if u[1] <= lim else ('over' if u[0] > lim else 'between_lo_hi'))
                rec.hit(f'rel.{w}.{rel}')
            if pi:
                rec.hit('repeat.pass_2plus')
                if (climit, nlimit) == prev and not p.get('pre'):
                    rec.hit('repeat.same_limits')
            prev = (climit, nlimit)
            conf.blob_storage_limit = climit
            conf.network_storage_limit = nlimit
            del records[:]
            rec.hit('op.' + p['op'])
            raised = None
            env.cut = dict(p['cut'], fired=False, cancelled=False, calls=0) if p.get('cut') else None
            try:
                if env.cut:
                    top_ret = await run_cut(env, dsm, p['op'])
                elif p['op'] == 'clean':
                    top_ret = await dsm.clean()
                elif p['op'] == 'content':
                    top_ret = await dsm._clean(False)
                elif p['op'] == 'network':
                    top_ret = await dsm._clean(True)
                else:
                    top_ret = await run_loop_once(dsm)
            except Exception as e:  # noqa: exceptions of the pass are logged; its effects are judged via the snapshots
                raised, top_ret = e, None
                rec.log(f'pass_raised.{type(e).__name__}')
            want = {'clean': [False, True], 'loop': [False, True], 'content': [False], 'network': [True]}[p['op']]
            seen = [x['is_net'] for x in records]
            cut, env.cut = env.cut, None
            cut_short = bool(cut and cut['fired'] and (cut['cancelled'] or raised is not None))
            if cut:
                rec.hit('cut.armed')
                if not cut['fired']:
                    rec.hit('cut.call_not_reached_pass_completed')      # an ordinary pass, judged as such
                elif not cut_short:
                    rec.log('cut.pass_returned_normally_in_spite_of_the_interruption')
                else:
                    for k in (cut['how'], 'at_' + cut['at'], 'op_' + p['op'], f"call_{cut['nth']}"):
                        rec.hit('cut.reached.' + k)
                    # what the pass had handed to the database thread is done before the harness looks again
                    await storage.db.run(lambda conn: None)
                    if records and records[-1]['cut']:
                        records[-1]['post'] = snapshot(env)
                    env.cut_before = {'how': cut['how'], 'at': cut['at'], 'nth': cut['nth'], 'op': p['op'], 'pass_index': pi}
            elif env.cut_before and raised is None and p['op'] in ('clean', 'loop'):
                rec.hit('cut.later_complete_pass.' + p['op'])
            history = 'after-interrupted-pass' if env.cut_before and not cut_short else 'no-interruption-before'
            if raised is None and not cut_short and seen != want:
                # U8: the call returned, so it was a cleanup pass of both classes.  A class whose sub-pass the hook did not see is judged
                # on the harness's own snapshots: content in the window before the network sub-pass, network in the window after the
                # content sub-pass.  Deletions the hook cannot attribute stay a harness error
                top_post = snapshot(env)
                missing = [w for w in want if w not in seen]
                stray = [h for h in cur['blobs'] if h not in top_post['blobs']] + [h for h in cur['disk'] if h not in top_post['disk']]
                if p['op'] not in ('clean', 'loop') or seen != [w for w in want if w in seen] or (not seen and stray):
                    raise RuntimeError(f"hook saw sub-passes {seen} for op {p['op']}")
                for is_net in missing:
                    cname = 'network' if is_net else 'content'
                    rec.hit('U8.class_judged_on_snapshots_around_the_call.' + cname)
                    w_pre = records[-1]['post'] if (is_net and records) else cur
                    w_post = records[0]['pre'] if (not is_net and records) else top_post
                    res = ref.judge_pass(w_pre, w_post, is_net, climit, nlimit, None, name=name)
                    if not res['violations']:
                        rec.log(f'U8.returned_without_{cname}_pass_and_no_clause_violated')
                    for key, what, details in res['violations']:
                        rec.violation(f'C19/U8/clean-returned-without-{cname}-pass/{ref.short_key(key)}/{history}',
                                      f"{p['op']} returned without raising and without running its {cname} pass"
                                      + (f" (an earlier pass of this DiskSpaceManager was cut short: {env.cut_before})" if env.cut_before else '')
                                      + f": {what} | limits blob_storage_limit={climit} network_storage_limit={nlimit}"
                                        f" | state before: {brief(env, w_pre)}",
                                      {'pass_index': pi, 'op': p['op'], 'sub_passes_seen_by_the_hook': seen, 'earlier_interrupted_pass': env.cut_before,
                                       'facts': res['facts'], 'details': details, 'returned': top_ret,
                                       'blobs_before [label,bytes,added_on,class,status,sd,file-row,disk]': table(env, w_pre),
                                       'spec': spec if len(json.dumps(spec)) < 6000 else 'see case (seeded)'})
            for x in records:
                rec.hit('pass.network' if x['is_net'] else 'pass.content')
                if sum(1 for h in x['pre']['blobs'] if h not in x['post']['blobs']) > 1000:
                    rec.hit('pass.removed_more_than_1000_blobs')
                # ownership as the USER declared it (is_mine=True handed to get_blob / store_stream / update_blob_ownership, real publishes),
                # not as the database column says now; blobs listed by two streams are left to the column
                declared = {h for h in env.published if env.listed_by.get(h, 0) <= 1}
                if declared:
                    rec.hit('U2.checked_against_declared_ownership')
                    gone = sorted(h for h in x['pre']['blobs'] if h not in x['post']['blobs'] and h in declared)
                    if gone:
                        rec.violation('C19/U2/own-blob-deleted/declared-own-through-the-api',
                                      f'{len(gone)} blob(s) the user published (declared is_mine through the blob manager / storage API) were deleted by a '
                                      f'{"network" if x["is_net"] else "content"} pass, e.g. {name(gone[0])}; is_mine in the database before the pass: '
                                      f'{x["pre"]["blobs"][gone[0]][2]}', {'pass_index': pi, 'op': p['op'], 'deleted_own': [name(h) for h in gone][:20],
                                                                            'spec': spec if len(json.dumps(spec)) < 6000 else 'see case (seeded)'})
                if env.own_at_restart:
                    rec.hit('U2.checked_against_ownership_recorded_before_restart')
                    gone = sorted(h for h in x['pre']['blobs'] if h not in x['post']['blobs'] and h in env.own_at_restart)
                    if gone:
                        rec.violation('C19/U2/own-blob-deleted/ownership-lost-across-restart',
                                      f'{len(gone)} blob(s) the user published (is_mine when the daemon was stopped, not re-declared since) were '
                                      f'deleted by a {"network" if x["is_net"] else "content"} pass after two start-ups (blob directory away, then '
                                      f'back), e.g. {name(gone[0])}; is_mine in the database now: {x["pre"]["blobs"][gone[0]][2]}',
                                      {'pass_index': pi, 'op': p['op'], 'deleted_own': [name(h) for h in gone][:20],
                                       'spec': spec if len(json.dumps(spec)) < 6000 else 'see case (seeded)'})
                res = ref.judge_pass(x['pre'], x['post'], x['is_net'], x['lims'][0], x['lims'][1], x['order'], name=name)
                if x['cut']:
                    # the sub-pass that was cut short: only what it must not delete (no completeness, no return value, no share in U7)
                    rec.hit('cut.sub_pass_judged_on_must_not_delete_clauses')
                    if res['deleted']:
                        rec.hit('cut.sub_pass_had_deleted_something')
                    for k, v in res['hits'].items():
                        if k.startswith(('U1.', 'U2.', 'U3.')):
                            rec.hit(k, v)
                    for key, what, details in res['violations']:
                        if key.startswith(('C19/U1/', 'C19/U2/', 'C19/U3/network-pass-deleted', 'C19/U3/content-pass-deleted', 'C19/U5/')):
                            rec.violation(key + '/pass-cut-short', f"{what} | the pass was cut short ({cut['how']} at call {cut['nth']} of "
                                          f"{cut['at']}) | limits blob_storage_limit={x['lims'][0]} network_storage_limit={x['lims'][1]}"
                                          f" | state before: {brief(env, x['pre'])}",
                                          {'pass_index': pi, 'op': p['op'], 'cut': cut, 'facts': res['facts'], 'details': details,
                                           'deletion_order': [name(h) for h in x['order']][:80],
                                           'spec': spec if len(json.dumps(spec)) < 6000 else 'see case (seeded)'})
                    continue
                if env.cut_before and not cut and res['hits'].get('U4.demanded') and p['op'] in ('clean', 'loop'):
                    rec.hit(f"cut.later_complete_pass_with_U4_demanded.{'network' if x['is_net'] else 'content'}")
                for k, v in res['hits'].items():
                    rec.hit(k, v)
                for k, v in res['logs'].items():
                    rec.log(k, v)
                rec.hit('U6.checked')
                if x['err'] is None and x['ret'] != len(res['deleted']):
                    rec.log('U6.return_differs_from_deleted_count')
                if res['deleted']:
                    rec.hit('pass.deleted_something')
                orc = one_reading['network' if x['is_net'] else 'content']
                for fld, lst in (('counted', res.get('only_if_counted')), ('not_counted', res.get('only_if_not_counted'))):
                    if lst and orc[fld] is None:
                        orc[fld] = {'pass_index': pi, 'key': lst[0][0], 'what': lst[0][1], 'limits': list(x['lims']), 'state_before': brief(env, x['pre'])}
                if any(key.startswith('C19/U7/') for key, _, _ in res['violations']):
                    orc['reported'] = True
                for key, what, details in res['violations']:
                    rec.violation(key, f"{what} | limits blob_storage_limit={x['lims'][0]} network_storage_limit={x['lims'][1]}"
                                       f" | state before: {brief(env, x['pre'])}",
                                  {'pass_index': pi, 'op': p['op'], 'facts': res['facts'], 'details': details,
                                   'returned': x['ret'], 'raised': repr(x['err']) if x['err'] else None,
                                   'deletion_order': [name(h) for h in x['order']][:80],
                                   'blobs_before [label,bytes,added_on,class,status,sd,file-row,disk]': table(env, x['pre']),
                                   'spec': spec if len(json.dumps(spec)) < 6000 else 'see case (seeded)'})
            if p['op'] in ('clean', 'loop') and top_ret is not None:
                rec.log('U6.clean_returned_value')
            elif p['op'] in ('clean', 'loop'):
                rec.log('U6.clean_returns_None')
            for c, orc in one_reading.items():
                if orc['counted'] and orc['not_counted'] and not orc['reported']:
                    orc['reported'] = True
                    a, b = orc['counted'], orc['not_counted']
                    rec.violation(f"C19/U7/no-reading-of-rows-without-file-holds-over-the-passes/{ref.short_key(a['key'])}-if-counted+"
                                  f"{ref.short_key(b['key'])}-if-not/{c}",
                                  f"finished rows whose file is gone: no single reading of their usage satisfies the statement over the {c} passes of "
                                  f"this scenario.  Counted as stored, pass {a['pass_index']} (limits {a['limits']}): {a['what']}  ||  Not counted "
                                  f"(bytes on disk only), pass {b['pass_index']} (limits {b['limits']}): {b['what']}",
                                  {'if_counted': a, 'if_not_counted': b, 'spec': spec if len(json.dumps(spec)) < 6000 else 'see case (seeded)'})
            # U0 (logged): the real usage figures against the model interval
            after = snapshot(env)
            u = ref.Index(after).usage()
            real = await dsm.get_space_used_mb(cached=False)
            rec.hit('U0.checked')
            for fld, iv in (('network_storage', u['network']), ('content_storage', u['downloaded_mb']), ('private_storage', u['own_mb'])):
                if not iv[0] <= real[fld] <= iv[1]:
                    rec.log('U0.outside_model_interval.' + fld)
    finally:
        if env.conn is not None:
            env.conn.close()
        if storage is not None and storage.db is not None:
            await storage.close()
        shutil.rmtree(env.tmp, ignore_errors=True)


CUT_CALLS = {'usage': ('storage', 'get_stored_blob_disk_usage'), 'list': ('storage', 'get_stored_blobs'),
             'stop_files': ('storage', 'stop_all_files'), 'delete': ('bm', 'delete_blobs')}


async def run_cut(env, dsm, op):
    """a clean() call (op clean: what the blob_clean API call awaits; op loop: the periodic task) that is interrupted at the n-th call of one
    of the functions a pass uses: the awaiting task is cancelled while that call is under way (the request goes away / the component
    is stopped), or the call fails (database locked, blob file not removable).  If the pass never makes that call it completes."""
    cut = env.cut
    obj_name, attr = CUT_CALLS[cut['at']]
    obj = getattr(env, obj_name)
    had = attr in vars(obj)
    prev = getattr(obj, attr)
    target = {}

    def call(*a, **kw):
        cut['calls'] += 1
        if cut['calls'] == cut['nth'] and not cut['fired']:
            cut['fired'] = True
            if cut['how'] == 'raise':
                raise PermissionError(13, 'Permission denied') if cut['at'] == 'delete' else sqlite3.OperationalError('database is locked')
            env.loop.call_soon((target.get('task') or dsm.task).cancel)
        return prev(*a, **kw)
    setattr(obj, attr, call)
    try:
        if op == 'loop':
            return await run_loop_once(dsm, cut)
        target['task'] = asyncio.ensure_future(dsm.clean())
        try:
            return await target['task']
        except asyncio.CancelledError:
            if not (cut['fired'] and cut['how'] == 'cancel' and target['task'].cancelled()):
                raise
            cut['cancelled'] = True
            return None
    finally:
        if had:
            setattr(obj, attr, prev)
        else:
            delattr(obj, attr)


async def run_loop_once(dsm, cut=None):
    """one pass through the real cleaning_loop task"""
    done = asyncio.Event()
    orig = dsm.clean
    out = {}

    async def once():
        dsm.cleaning_interval = 3600
        try:
            out['ret'] = await orig()
        except Exception as e:  # noqa
            out['err'] = e
        except asyncio.CancelledError:
            if cut is not None and cut['fired'] and cut['how'] == 'cancel':
                cut['cancelled'] = True
            raise
        finally:
            done.set()
    dsm.clean = once
    dsm.cleaning_interval = 0.001
    try:
        await dsm.start()
        await asyncio.wait_for(done.wait(), 120)
        task = dsm.task
        await dsm.stop()
        try:
            await task
        except asyncio.CancelledError:
            pass
    finally:
        del dsm.clean
    if 'err' in out:
        raise out['err']
    return out.get('ret')

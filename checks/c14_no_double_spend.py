"""C14 — no double spend among concurrent builds.  [H+M]
2..12 real Transaction.create calls launched together on one real Ledger/Database under the chaos
scheduler (seeded yields around every sqlite call); boundary history {call, return(inputs)|error,
release|broadcast}; SQL snapshots at the phase borders; oracle D1-D4 (DESIGN §4 C14)."""
import asyncio
import random

from vlib import boot, chaos as chaos_mod, walletfx
from vlib.ref import minitx

ID = 'C14'
LEVEL = 'exploration'
RULE = ('case = wallet (strategy, fee rate, 3..40 UTXOs, 1-2 accounts) + a round of 2..12 concurrent builds sized so the builds '
        'compete for a scarce pool, then a late build while successes are held, then release/broadcast in random order with '
        'further builds in between. distinct = hash(strategy, #builds, #successes, #failures, interleaving signature of '
        '(task, db-call) completions); non-trivial = >= 2 builds succeeded or one failed while others held outputs')
ASSUMPTIONS = ['interleavings are produced only at existing suspension points (around AIOSQLite.run); the single sqlite writer thread is real',
               'broadcast is simulated by saving the transaction I/O through the real save_transaction_io (inputs become spent)']
REQUIRED_HITS = ['D4.failed_after_reserving', 'D1.pairs_checked', 'D2.checked', 'D3.checked', 'D4.failed_builds', 'round.some_failed_some_succeeded',
                 'resync.during_builds', 'resync.while_held', 'reconnect.while_held', 'round.debug_logging_enabled', 'build.funded_from_a_subset_of_the_accounts', 'phase3.broadcast_failed.rejected', 'phase3.broadcast_failed.cancelled', 'phase3.broadcast_failed.timed_out', 'build.without_outputs', 'pool.has_barely_spendable_coins', 'phase2.late_build', 'phase3.release', 'phase3.broadcast', 'phase3.build_in_between', 'chaos.points']


class InjectedFault(Exception):
    pass


STRATS = ['sqlite', 'prefer_confirmed', 'only_confirmed', 'standard', 'random_draw', None, 'closest_match', 'branch_and_bound']


def plan(tier):
    return {'shards': 16, 'budget_s': 50 if tier == 'quick' else 800}


def gen_cases(rng, tier, shard, nshards):
    n = 60 if tier == 'quick' else 1500
    for i in range(n):
        yield {'fam': 'round', 'seed': rng.getrandbits(48), 'strategy': STRATS[(i + shard) % len(STRATS)],
               'builds': rng.choice([2, 2, 3, 4, 6, 8, 12]), 'rate': rng.choice([1, 50, 50, 1000])}


def tx_inputs(tx):
    m = minitx.parse(tx.raw)
    return [f"{i['txid']}:{i['nout']}" for i in m['inputs']]


async def _round(rec, case):
    boot.import_lbry()
    from lbry.wallet import Transaction, Output
    from lbry.error import InsufficientFundsError
    r = random.Random(case['seed'])
    random.seed(case['seed'])
    rate, strategy, nb = case['rate'], case['strategy'], case['builds']
    nacc = r.choice([1, 1, 2])
    fx = await walletfx.Fx.open(n_accounts=nacc, fee_per_byte=rate, strategy=strategy)
    import logging
    lbry_log, old_level = logging.getLogger('lbry'), logging.getLogger('lbry').level
    if r.random() < 0.3:
        # `lbrynet start --verbose`: debug logging must not change what gets reserved (seeded break C14-J: a debug line consumed the
        # generator of outputs to reserve)
        lbry_log.setLevel(logging.DEBUG)
        logging.disable(logging.NOTSET)          # the harness silences logging globally (vlib/boot.py); a null handler keeps it quiet instead
        if not any(isinstance(h, logging.NullHandler) for h in lbry_log.handlers):
            lbry_log.addHandler(logging.NullHandler())
        lbry_log.propagate = False
        rec.hit('round.debug_logging_enabled')
    ch = chaos_mod.Chaos(case['seed'])
    restore = []
    try:
        ledger = fx.ledger
        spend = 148 * rate
        nutxo = r.randrange(3, 40)
        amounts = [r.randrange(spend * 3, spend * 3 + 10 ** r.randrange(4, 10)) for _ in range(nutxo)]
        if r.random() < 0.35:
            # a few coins worth little more than their own spend fee: a build without outputs that draws one has to come back for more
            # inputs in a second pass of Transaction.create's funding loop (seeded break C14-E leaked the first pass's reservation when
            # the second pass found nothing because concurrent builds held the rest)
            amounts += [spend + r.randrange(1, 56 * rate + 1000) for _ in range(r.randrange(1, 5))]
            r.shuffle(amounts)
            rec.hit('pool.has_barely_spendable_coins')
        funded = [await fx.fund([(r.randrange(nacc), r.choice([0, 1]), r.randrange(20), a) for a in amounts], height=10)]
        if r.random() < 0.4:
            funded.append(await fx.fund([(r.randrange(nacc), 0, r.randrange(20), a) for a in amounts[:3]], height=0, is_verified=False))

        async def resync(why):
            # what the address-history sync does when a stored transaction's height changed (mempool -> block, reorg, second status
            # update): Ledger.update_history -> _sync_and_save_batch -> Database.save_transaction_io_batch of the SAME transaction.
            # It must not disturb reservations (seeded break C14-C: the re-save recreated the txo rows unreserved)
            ftx, ftxos = funded[r.randrange(len(funded))]
            ftx.height = max(ftx.height, 10) + 1
            seen = {}
            for o in ftxos:
                seen[o.get_address(ledger)] = o.pubkey_hash
            for address, h160 in seen.items():
                await ledger.db.save_transaction_io_batch([ftx], address, h160, f'{ftx.id}:{ftx.height}:')
            rec.hit('resync.' + why)
        initial = await fx.txo_snapshot()
        total = sum(t['amount'] for t in initial.values())
        accounts = fx.accounts
        chaos_mod.install_db(ch)
        history = []          # (clock, build, event, payload)
        clock = [0]

        def ev(b, what, payload=None):
            clock[0] += 1
            history.append((clock[0], b, what, payload))

        failing = {f'b{i}' for i in range(nb) if r.random() < 0.15}
        real_sign = Transaction.sign

        async def maybe_failing_sign(self_, *a, **k):
            t = asyncio.current_task()
            if t is not None and t.get_name() in failing:
                await asyncio.sleep(0)
                raise InjectedFault('injected signing failure')       # fails AFTER its inputs were reserved
            return await real_sign(self_, *a, **k)
        Transaction.sign = maybe_failing_sign
        restore.append(lambda: setattr(Transaction, 'sign', real_sign))

        async def build(name, amount):
            ev(name, 'call', amount)
            try:
                # which accounts fund this build: all of them (the default) or one (--funding_account_ids); lists that overlap without being
                # equal compete for the same outputs (seeded break C14-I gave every distinct list a lock of its own)
                funding = accounts
                if len(accounts) > 1 and r.random() < 0.5:
                    funding = [accounts[r.randrange(len(accounts))]]
                    rec.hit('build.funded_from_a_subset_of_the_accounts')
                if amount == 0:
                    # a build with no outputs of its own (what abandon / consolidate do): the library adds inputs until a change output fits
                    rec.hit('build.without_outputs')
                    tx = await Transaction.create([], [], funding, funding[0])
                else:
                    tx = await Transaction.pay(amount, ledger.hash160_to_address(r.randbytes(20)), funding, funding[0])
            except InsufficientFundsError:
                ev(name, 'refused')
                return None
            except InjectedFault:
                ev(name, 'failed-after-selection')
                rec.hit('D4.failed_after_reserving')
                return None
            ins = tx_inputs(tx)
            ev(name, 'return', ins)
            return tx

        # ---------------- phase 1: concurrent builds competing for the pool
        share = r.choice([0.9 / nb, 1.5 / nb, 3.0 / nb, 0.3])
        tasks = []
        for i in range(nb):
            amt = max(1, int(total * share * r.uniform(0.5, 1.2)))
            if r.random() < 0.2:
                amt = 0
            tasks.append(asyncio.get_running_loop().create_task(build(f'b{i}', amt), name=f'b{i}'))
        syncer = asyncio.get_running_loop().create_task(resync('during_builds'), name='sync') if r.random() < 0.5 else None
        results = await asyncio.gather(*tasks, return_exceptions=True)
        if syncer is not None:
            await syncer
        if r.random() < 0.6:
            await resync('while_held')
        if r.random() < 0.4:
            # the wallet server connection drops and comes back while transactions are held: Ledger.join_network is the on_connected
            # listener (seeded break C14-F moved the start-up release_all_outputs() into it)
            await ledger.join_network()
            rec.hit('reconnect.while_held')
        for i, res in enumerate(results):
            if isinstance(res, BaseException):
                import traceback
                tb = traceback.extract_tb(res.__traceback__)
                inner = [f for f in tb if '/lbry/' in f.filename][-1:] or tb[-1:]
                where = f'{inner[0].filename.split("/lbry/")[-1]}:{inner[0].name}'
                rec.violation(f'C14/build-raised/{type(res).__name__}@{where}', f'concurrent build raised {res!r}',
                              {'strategy': strategy, 'traceback': traceback.format_exception(res)[-6:]})
                return
        held = {f'b{i}': tx for i, tx in enumerate(results) if tx is not None}
        nfail = sum(1 for tx in results if tx is None)
        held_inputs = {b: tx_inputs(tx) for b, tx in held.items()}
        ok = True
        # D1 pairwise disjoint
        names = sorted(held_inputs)
        for i in range(len(names)):
            for j in range(i + 1, len(names)):
                rec.hit('D1.pairs_checked')
                common = set(held_inputs[names[i]]) & set(held_inputs[names[j]])
                if common:
                    rec.violation('C14/D1/output-selected-by-two-concurrent-builds',
                                  f'builds {names[i]} and {names[j]} (strategy {strategy}) both spend {sorted(common)[0]}',
                                  {'common': sorted(common), 'history': history[-30:], 'interleaving': ch.trace[-60:]})
                    ok = False
        ch.enabled = False
        snap = await fx.txo_snapshot()
        utxo_ids = {t.id for a in accounts for t in await a.get_utxos()}
        ch.enabled = True
        union = set().union(*held_inputs.values()) if held_inputs else set()
        rec.hit('D2.checked')
        for t in union:
            if not snap[t]['is_reserved']:
                rec.violation('C14/D2/held-output-not-reserved', f'input {t} of a successful build is not marked reserved', {'txo': t, 'strategy': strategy})
                ok = False
            if t in utxo_ids:
                rec.violation('C14/D2/held-output-still-listed-spendable', f'input {t} of a held build is still returned by get_utxos()', {'txo': t})
                ok = False
        # D4: whatever is reserved now belongs to a successful build (failed builds left nothing)
        if nfail:
            rec.hit('D4.failed_builds', nfail)
        stray = [t for t, v in snap.items() if v['is_reserved'] and t not in union]
        if stray:
            rec.violation('C14/D4/reserved-by-nobody', f'{len(stray)} outputs are reserved although no successful build holds them '
                          f'({nfail} builds failed)', {'stray': stray[:5], 'history': history[-30:], 'strategy': strategy})
            ok = False
        if nfail and held:
            rec.hit('round.some_failed_some_succeeded')
        # ---------------- phase 2: a late build while successes are still held
        if ok:
            rec.hit('phase2.late_build')
            late = await build('late', max(1, int(total * r.choice([0.01, 0.2, 0.6]))))
            if late is not None:
                li = tx_inputs(late)
                if set(li) & union:
                    rec.violation('C14/D2/late-build-took-held-output', f'a later build spends {sorted(set(li) & union)[0]} which another '
                                  f'unreleased build holds', {'history': history[-30:], 'strategy': strategy})
                    ok = False
                held['late'] = late
                held_inputs['late'] = li
        # ---------------- phase 3: release / broadcast in random order, more builds in between
        broadcast_inputs, broadcast_txs = set(), []
        order = sorted(held)
        r.shuffle(order)
        for b in order:
            if not ok:
                break
            tx = held.pop(b)
            ins = held_inputs.pop(b)
            x = r.random()
            if x < 0.35:
                rec.hit('phase3.release')
                ev(b, 'release')
                await ledger.release_tx(tx)
            elif x < 0.6:
                # abandoned because its broadcast did not go through: rejected by the server, or the call was cancelled / timed out while
                # the request was pending (Ledger.broadcast_or_release; seeded break C14-H only released on `Exception`)
                how = r.choice(['rejected', 'cancelled', 'cancelled', 'timed_out'])
                rec.hit('phase3.broadcast_failed.' + how)
                ev(b, 'broadcast-' + how)
                gate = asyncio.Event()

                async def fake_broadcast(raw_hex, _how=how, _gate=gate):
                    await asyncio.sleep(0)
                    if _how == 'rejected':
                        raise RuntimeError('the server rejected the transaction')
                    await _gate.wait()          # unresponsive server
                ledger.network.broadcast = fake_broadcast
                if how == 'timed_out':
                    t = asyncio.ensure_future(asyncio.wait_for(ledger.broadcast_or_release(tx), 0.005))
                else:
                    t = asyncio.ensure_future(ledger.broadcast_or_release(tx))
                    if how == 'cancelled':
                        for _ in range(r.choice([1, 2, 4])):
                            await asyncio.sleep(0)
                        t.cancel()
                res = (await asyncio.gather(t, return_exceptions=True))[0]
                if not isinstance(res, BaseException):
                    raise RuntimeError('harness: failed broadcast returned normally')
                del ledger.network.broadcast
            else:
                rec.hit('phase3.broadcast')
                ev(b, 'broadcast')
                await _broadcast(fx, tx)
                broadcast_inputs |= set(ins)
                broadcast_txs.append(tx)
            if held and r.random() < 0.5:
                rec.hit('phase3.build_in_between')
                name = f'mid{len(history)}'
                mid = await build(name, max(1, int(total * r.choice([0.01, 0.1, 0.4]))))
                if mid is not None:
                    mi = set(tx_inputs(mid))
                    still = set().union(*held_inputs.values()) if held_inputs else set()
                    if mi & still:
                        rec.violation('C14/D2/late-build-took-held-output', f'build {name} spends {sorted(mi & still)[0]} held by an unreleased build',
                                      {'history': history[-30:], 'strategy': strategy})
                        ok = False
                    if mi & broadcast_inputs:
                        rec.violation('C14/D2/build-took-spent-output', f'build {name} spends {sorted(mi & broadcast_inputs)[0]} already spent by a broadcast transaction',
                                      {'history': history[-30:], 'strategy': strategy})
                        ok = False
                    ev(name, 'release')
                    await ledger.release_tx(mid)
        # ---------------- D3: everything available again
        if ok:
            ch.enabled = False
            rec.hit('D3.checked')
            final = await fx.txo_snapshot()
            stuck = [t for t, v in final.items() if v['is_reserved'] and not v['spent']]
            if stuck:
                rec.violation('C14/D3/output-stays-reserved-after-all-released', f'{len(stuck)} unspent outputs are still reserved after every build '
                              f'was released, broadcast or had failed', {'stuck': stuck[:5], 'history': history[-40:], 'strategy': strategy})
            utxo_ids = {t.id for a in accounts for t in await a.get_utxos()}
            expect = {t for t, v in final.items() if not v['spent'] and v['account'] is not None and v['txo_type'] in (0, 4)}
            model = (set(initial) - broadcast_inputs)
            for tx in broadcast_txs:
                m = minitx.parse(tx.raw)
                for n_, o in enumerate(m['outputs']):
                    tid = f"{m['txid']}:{n_}"
                    if tid in final and final[tid]['account'] is not None:
                        model.add(tid)
            if utxo_ids != model:
                rec.violation('C14/D3/spendable-set-differs', f'get_utxos() differs from initial - broadcast inputs + change: missing {len(model - utxo_ids)}, '
                              f'extra {len(utxo_ids - model)}', {'missing': sorted(model - utxo_ids)[:5], 'extra': sorted(utxo_ids - model)[:5],
                                                                 'strategy': strategy})
        rec.hit('chaos.points', ch.points)
        nsucc = sum(1 for t in results if t is not None)
        rec.case([str(strategy), nb, nsucc, nfail, ch.signature()], nontrivial=nsucc >= 2 or (nfail and nsucc),
                 sample={'strategy': strategy, 'builds': nb, 'succeeded': nsucc, 'refused': nfail, 'utxos': len(initial),
                         'chaos_points': ch.points, 'interleaving_head': ch.trace[:12], 'history_head': [list(h) for h in history[:8]]})
    finally:
        lbry_log.setLevel(old_level)
        logging.disable(logging.CRITICAL)
        for f in restore:
            f()
        chaos_mod.uninstall_db()
        await fx.close()


async def _broadcast(fx, tx):
    ledger = fx.ledger
    await ledger.db.insert_transaction(tx)
    addrs = {}
    for txi in tx.inputs:
        txo = txi.txo_ref.txo
        if txo is not None and txo.has_address:
            addrs[txo.get_address(ledger)] = txo.pubkey_hash
    mine = {row['address'] for row in await fx.sql("select address from account_address")}
    for txo in tx.outputs:
        if txo.has_address and txo.get_address(ledger) in mine:
            addrs[txo.get_address(ledger)] = txo.pubkey_hash
    for a, h in addrs.items():
        if a in mine:
            await ledger.db.save_transaction_io(tx, a, h, f'{tx.id}:0:')
    for acc in fx.accounts:
        await acc.ensure_address_gap()


def execute(rec, case):
    walletfx.run(_round(rec, case), timeout=600)

"""C08 — SPV Merkle verification.  [DIFF] real Ledger.maybe_verify_transaction, directly and through
_single_batch with an injected fake network; headers are a mined sim chain (real Headers.connect
validates it) whose Merkle roots are those of generated blocks of 1..64 real serialised transactions;
oracle = independent Merkle fold (vlib/ref/merkle.py) against the stored header bytes."""
import asyncio
import random

from vlib import boot
from vlib.ref import btc_tx as BT, headers as R, merkle as M, minitx

ID = 'C08'
LEVEL = 'exploration'
RULE = ('case = a sim chain of 4..9 blocks with 1..64 real transactions each; for sampled (block, tx index): the genuine proof and every '
        'single mutation class (each branch element one hex digit, each low-depth position bit, branch truncated / extended, one tx byte, '
        'height +-1 / other / 0 / -1 / >= len, missing merkle key, another tx\'s proof). distinct = hash(block size, index, mutation class, '
        'mutation position); non-trivial = mutated proofs and genuine proofs of blocks with >= 2 txs')
ASSUMPTIONS = ['SHA-256d collision resistance', 'txid of the generated legacy transactions taken from an independent parser (vlib/ref/minitx.py)',
               'mutations that leave the recomputed root unchanged (side flip of a duplicated last node, position bits above the tree depth) '
               'are expected to still verify: the statement\'s criterion is met; counted as ineffective']
REQUIRED_HITS = ['reorg.database_record_checked', 'shape.witness_serialised_transaction', 'reorg.tip_replaced_by_subscription_checked', 'reorg.cache_checked_batch_in_flight', 'planted.checked', 'reorg.in_flight_checked', 'reorg.cache_checked', 'reuse.checked', 'genuine.accepted', 'genuine.via_single_batch', 'mut.branch_digit', 'mut.pos_bit', 'mut.truncate', 'mut.extend', 'mut.tx_byte',
                 'mut.height', 'mut.height_no_header', 'mut.foreign_proof', 'mut.ineffective_still_verifies', 'shape.odd_level', 'shape.single_tx',
                 'shape.64']
MAXT = (1 << 255) - 1
_S = {}


def plan(tier):
    return {'shards': 16, 'budget_s': 40 if tier == 'quick' else 600}


def shard_setup(rec, tier):
    M.selftest()


def gen_cases(rng, tier, shard, nshards):
    n = 12 if tier == 'quick' else 300
    sizes_all = list(range(1, 65))
    for i in range(n):
        sizes = [rng.choice(sizes_all) for _ in range(rng.randrange(3, 8))]
        sizes[0] = sizes_all[(i * nshards + shard) % 64]        # every block size 1..64 is visited across cases
        if i == 0:
            sizes += [1, 64, 3]
        yield {'fam': 'chain', 'seed': rng.getrandbits(48), 'sizes': sizes}


def execute(rec, case):
    loop = asyncio.new_event_loop()
    try:
        loop.run_until_complete(asyncio.wait_for(_run_and_close(rec, case), 900))
    finally:
        loop.run_until_complete(loop.shutdown_default_executor())
        loop.close()


async def _run_and_close(rec, case):
    try:
        await _run(rec, case)
    finally:
        for db in _S.pop('open_dbs', []):
            try:
                await db.close()
            except Exception:  # noqa
                pass


def _txid(raw):
    """transaction id by the independent codec: reversed double SHA-256 of the serialisation WITHOUT witness data"""
    return BT.txid(BT.decode(raw))


class Net:
    def __init__(self):
        from lbry.wallet.stream import StreamController
        self.on_header = StreamController().stream
        self.on_status = StreamController().stream
        self.is_connected = False
        self.client = None
        self.batch_reply = {}
        self.merkle_reply = {}
        self.calls = 0
        self.gate = None
        self.entered = asyncio.Event()
        self.server_chain = []

    async def retriable_call(self, function, *args, **kwargs):
        return await function(*args, **kwargs)

    async def get_transaction_batch(self, txids, restricted=True):
        self.calls += 1
        return {t: self.batch_reply[t] for t in txids}

    async def get_merkle(self, txid, height):
        self.calls += 1
        if self.gate is not None:
            self.entered.set()
            await self.gate.wait()          # the reply is in flight: the harness changes the header chain meanwhile
        return self.merkle_reply[(txid, height)]

    async def get_headers(self, height, count=2001, b64=False):
        self.calls += 1
        return {'hex': b''.join(self.server_chain[height:height + count]).hex(), 'count': len(self.server_chain[height:height + count])}


async def _run(rec, case):
    boot.import_lbry()
    from lbry.wallet import Ledger, Database, Transaction, Output, Input
    from lbry.wallet.header import Headers
    r = random.Random(case['seed'])
    sizes = case['sizes']
    # ---- blocks of real transactions
    blocks = [[]]                      # height 0 = genesis, no txs used
    for n in sizes:
        txs = []
        for _ in range(n):
            prev = Transaction(height=-2).add_outputs([Output.pay_pubkey_hash(r.randrange(1, 10 ** 10), r.randbytes(20))]).outputs[0]
            tx = Transaction().add_inputs([Input.spend(prev)]).add_outputs(
                [Output.pay_pubkey_hash(r.randrange(1, 10 ** 9), r.randbytes(20)) for _ in range(r.choice([1, 1, 2, 5]))])
            raw = tx.raw
            leaf = bytes.fromhex(_txid(raw))[::-1]
            if r.random() < 0.25:
                # what a hub hands out for a segwit transaction: the BIP144 serialisation (marker, flag, witness stacks).  The block's Merkle
                # tree is built from txids, i.e. from the hash WITHOUT witness data (seeded break C08-J hashed the full serialisation)
                ref = BT.decode(raw)
                ref.witnesses = [[r.randbytes(r.choice([1, 33, 72]))for _ in range(r.choice([1, 2]))] for _ in ref.inputs]
                raw = BT.encode_bip144(ref)
                rec.hit('shape.witness_serialised_transaction')
            txs.append((raw, leaf))
        blocks.append(txs)
    # ---- mined sim chain carrying the blocks' Merkle roots
    chain = []
    ts = 1_600_000_000
    for h, txs in enumerate(blocks):
        root = M.root([t[1] for t in txs]) if txs else r.randbytes(32)
        if h == 0:
            target, bits, prev_hash = MAXT, R.target_to_compact(MAXT), bytes(32)
        else:
            prev = R.unpack(chain[-1])
            pp = R.unpack(chain[-2]) if h >= 2 else None
            target = R.next_target(MAXT, pp, prev)
            bits, prev_hash = R.target_to_compact(target), R.header_hash(chain[-1])
        ts += 800
        chain.append(R.mine(1, prev_hash, root, r.randbytes(32), ts, bits, min(target, R.compact_to_target(bits)), start_nonce=r.getrandbits(30)))
    genesis_hex = R.header_hash_hex(chain[0])

    class SimHeaders(Headers):
        max_target = MAXT
        genesis_hash = genesis_hex.encode()
        checkpoints = {}

    hdrs = SimHeaders(':memory:')
    await hdrs.open()
    added = await hdrs.connect(0, b''.join(chain))
    if added != len(chain):
        raise RuntimeError(f'harness: sim chain not accepted by the real validator ({added}/{len(chain)})')
    net = Net()
    ledger = Ledger({'db': Database(':memory:'), 'headers': hdrs, 'network': net})
    hdrs.checkpoints = {}      # Ledger.__init__ stamps its main-net checkpoint table on the headers object; the sim net has none
    nh = len(chain)

    def header_root(height):
        return chain[height][36:68]

    async def verify(raw, height, merkle, via_batch=False):
        """returns (is_verified, position, exception)"""
        tx = Transaction(raw, height=height)
        try:
            if via_batch:
                txid = _txid(raw)
                net.batch_reply = {txid: (raw.hex(), merkle)}
                txs = await ledger._single_batch([txid], {txid: height})
                tx = list(txs.values())[0]
            elif merkle == 'fetch':
                txid = _txid(raw)
                net.merkle_reply = {(txid, height): _S['fetch_reply']}
                await ledger.maybe_verify_transaction(tx, height)
            else:
                await ledger.maybe_verify_transaction(tx, height, merkle)
        except Exception as e:  # noqa  an exception is a refusal
            return False, None, e
        return bool(tx.is_verified), tx.position, None

    def expected(raw, height, branch_hex, pos):
        """the statement's criterion, computed independently"""
        if not (0 < height < nh):
            return False
        try:
            txid = bytes.fromhex(_txid(raw))[::-1]
            br = [bytes.fromhex(b)[::-1] for b in branch_hex]
        except Exception:  # noqa
            return False
        return M.fold(txid, br, pos) == header_root(height)

    def judge(label, cls, raw, height, merkle, got, exc, sig):
        want = expected(raw, height, merkle.get('merkle', None) or [], merkle.get('pos', 0)) if 'merkle' in merkle else False
        rec.hit('mut.' + cls if cls != 'genuine' else 'genuine.checked')
        if got and not want:
            rec.violation(f'C08/verified-without-valid-proof/{cls}',
                          f'{label}: transaction marked verified at height {height} but folding its id up the supplied branch with the supplied '
                          f'position does not give the header\'s Merkle root (headers: {nh})',
                          {'class': cls, 'height': height, 'pos': merkle.get('pos'), 'branch_len': len(merkle.get('merkle', [])), 'n_headers': nh})
        elif want and not got:
            rec.violation(f'C08/valid-proof-not-accepted/{cls}',
                          f'{label}: proof reproduces the header\'s Merkle root but the transaction was not marked verified (exc={exc!r})',
                          {'class': cls, 'height': height, 'pos': merkle.get('pos'), 'branch_len': len(merkle.get('merkle', []))})
        elif want and got and cls != 'genuine':
            rec.hit('mut.ineffective_still_verifies')
        rec.case(sig, nontrivial=True)

    def mine_on(base, root, ts_delta=800):
        prev = R.unpack(base[-1])
        pp = R.unpack(base[-2]) if len(base) >= 2 else None
        target = R.next_target(MAXT, pp, prev)
        bits = R.target_to_compact(target)
        return R.mine(1, R.header_hash(base[-1]), root, r.randbytes(32), prev['timestamp'] + ts_delta, bits, min(target, R.compact_to_target(bits)),
                      start_nonce=r.getrandbits(30))

    def new_block(k):
        out = []
        for _ in range(k):
            prev_o = Transaction(height=-2).add_outputs([Output.pay_pubkey_hash(r.randrange(1, 10 ** 10), r.randbytes(20))]).outputs[0]
            t = Transaction().add_inputs([Input.spend(prev_o)]).add_outputs([Output.pay_pubkey_hash(r.randrange(1, 10 ** 9), r.randbytes(20))])
            out.append((t.raw, bytes.fromhex(_txid(t.raw))[::-1]))
        return out

    await _main_loop(rec, r, blocks, chain, nh, ledger, net, verify, expected, judge, Transaction, header_root)
    if rec.out_of_time():
        return
    # ================= histories in which the header at the transaction's height CHANGES (added after seeded breaks C08-C / C08-D) =====
    # ---- (1) the header is replaced while the Merkle reply is in flight (maybe_verify_transaction without a proof handed in)
    h = r.randrange(1, nh)
    old_txs = blocks[h]
    alt = new_block(r.choice([1, 2, 5]))
    fork_hdr = mine_on(chain[:h], M.root([t[1] for t in alt]), ts_delta=801)
    for which in ('old-proof', 'new-proof'):
        if which == 'old-proof':
            i = r.randrange(len(old_txs))
            raw, leaves = old_txs[i][0], [t[1] for t in old_txs]
        else:
            i = r.randrange(len(alt))
            raw, leaves = alt[i][0], [t[1] for t in alt]
        proof = {'merkle': [b[::-1].hex() for b in M.branch(leaves, i)], 'pos': i, 'block_height': h}
        txid = _txid(raw)
        net.merkle_reply = {(txid, h): proof}
        net.gate, net.entered = asyncio.Event(), asyncio.Event()
        obj = Transaction(raw, height=h)
        task = asyncio.get_running_loop().create_task(ledger.maybe_verify_transaction(obj, h))
        await asyncio.wait_for(net.entered.wait(), 30)
        if which == 'old-proof':
            added = await hdrs.connect(h, fork_hdr)           # reorg at exactly that height while the request is outstanding
            if added != 1:
                raise RuntimeError('harness: fork header rejected')
            chain[h] = fork_hdr
        net.gate.set()
        try:
            await asyncio.wait_for(task, 30)
        except Exception as e:  # noqa
            rec.log('reorg_in_flight_raised.' + type(e).__name__)
        net.gate = None
        rec.hit('reorg.in_flight_checked')
        want = M.fold(bytes.fromhex(txid)[::-1], [bytes.fromhex(b)[::-1] for b in proof['merkle']], i) == header_root(h)
        if bool(obj.is_verified) != want:
            rec.violation(f'C08/{"verified-without-valid-proof" if obj.is_verified else "valid-proof-not-accepted"}/header-replaced-while-proof-in-flight',
                          f'the header at height {h} was replaced while get_merkle was outstanding; the reply ({which}) '
                          f'{"does not reach" if not want else "reaches"} the header stored at that height now, but is_verified={obj.is_verified}',
                          {'which': which, 'height': h})
        rec.case(['reorg_in_flight', which, len(leaves)], nontrivial=True)
    # ---- (3) a batch of headers with an invalid one in it (no proof of work) whose Merkle root commits to an invented payment: whatever
    # part of the batch the validator refuses is not "the locally validated header at that height", so the payment's genuine-looking
    # proof must not verify there (seeded break C08-F: connect() stored the refused header for some batch shapes)
    tip = len(hdrs)
    nb = r.choice([3, 4, 5, 7, 9])
    j = r.randrange(0, nb)
    batch, planted = [], None
    base = [bytes(hdrs.io.getvalue()[i * 112:(i + 1) * 112]) for i in range(tip)]
    for k in range(nb):
        blk = new_block(r.choice([1, 2, 3]))
        root = M.root([t[1] for t in blk])
        good = mine_on(base + batch, root, ts_delta=803)
        if k == j:
            hd = R.unpack(good)
            target = min(R.next_target(MAXT, R.unpack((base + batch)[-2]), R.unpack((base + batch)[-1])), R.compact_to_target(hd['bits']))
            good = R.mine(hd['version'], hd['prev'], hd['merkle'], hd['claimtrie'], hd['timestamp'], hd['bits'], target, want_valid=False)
            planted = blk
        batch.append(good)
    try:
        await hdrs.connect(tip, b''.join(batch))
    except Exception as e:  # noqa
        rec.log('planted.connect_raised.' + type(e).__name__)
    rec.hit('planted.checked')
    pi = r.randrange(len(planted))
    praw, pleaves = planted[pi][0], [t[1] for t in planted]
    ptxid = _txid(praw)
    pproof = {'merkle': [b[::-1].hex() for b in M.branch(pleaves, pi)], 'pos': pi, 'block_height': tip + j}
    obj = Transaction(praw, height=tip + j)
    try:
        await ledger.maybe_verify_transaction(obj, tip + j, pproof)
    except Exception as e:  # noqa
        rec.log('planted.verify_raised.' + type(e).__name__)
    if obj.is_verified:
        rec.violation('C08/verified-without-valid-proof/against-a-header-the-validator-refused',
                      f'header {j} of a {nb}-header batch connected at {tip} has no proof of work; a transaction committed by its Merkle root was '
                      f'recorded verified at height {tip + j} (len(headers) is now {len(hdrs)})', {'batch': nb, 'bad_index': j, 'tip': tip})
    rec.case(['planted', nb, j], nontrivial=True)
    # model the valid prefix of the batch that was legitimately stored
    for k in range(min(j, len(hdrs) - tip)):
        chain.append(batch[k])
    # ---- (4) one-block reorganisation delivered as a header subscription update: the server announces another block at the height of our
    # tip (it links to the stored parent, so connect() simply overwrites the tip).  A transaction verified in the old tip block and served
    # from the cache afterwards is "verified at a height" whose stored header no longer commits to it.
    tipn = len(hdrs) - 1
    stored_now = bytes(hdrs.io.getvalue())
    tip_block = None
    for hh_, blk_ in enumerate(blocks):
        if hh_ == tipn and hh_ < len(chain) and stored_now[tipn * 112:(tipn + 1) * 112] == chain[hh_]:
            tip_block = blk_
    if tip_block is None:
        # the tip was stored by scenario (3): append one block of our own so that there is a transaction to verify in the tip block
        tb = new_block(r.choice([1, 2, 4]))
        base_now = [stored_now[i * 112:(i + 1) * 112] for i in range(len(hdrs))]
        th = mine_on(base_now, M.root([t[1] for t in tb]), ts_delta=805)
        if await hdrs.connect(len(hdrs), th) == 1:
            tip_block, tipn = tb, len(hdrs) - 1
            stored_now = bytes(hdrs.io.getvalue())
    if tip_block:
        ti = r.randrange(len(tip_block))
        traw, tleaves = tip_block[ti][0], [t[1] for t in tip_block]
        ttxid = _txid(traw)
        tproof = {'merkle': [b[::-1].hex() for b in M.branch(tleaves, ti)], 'pos': ti, 'block_height': tipn}
        net.batch_reply = {ttxid: (traw.hex(), tproof)}
        got1 = {}
        async for txs in ledger.request_transactions(((ttxid, tipn),), cached=True):
            got1.update(txs)
        if got1 and list(got1.values())[0].is_verified:
            base_now = [stored_now[i * 112:(i + 1) * 112] for i in range(tipn)]
            other_tip = mine_on(base_now, M.root([t[1] for t in new_block(1)]), ts_delta=807)
            try:
                await asyncio.wait_for(ledger.receive_header([{'height': tipn, 'hex': other_tip.hex()}]), 60)
            except Exception as e:  # noqa
                rec.log('tip_replaced.receive_header_raised.' + type(e).__name__)
            if bytes(hdrs.io.getvalue())[tipn * 112:(tipn + 1) * 112] == other_tip:
                rec.hit('reorg.tip_replaced_by_subscription_checked')
                net.batch_reply = {ttxid: (traw.hex(), {'block_height': 0})}
                got2 = {}
                async for txs in ledger.request_transactions(((ttxid, 0),), cached=True):
                    got2.update(txs)
                for t in got2.values():
                    if t.is_verified:
                        rec.violation('C08/verified-without-valid-proof/cached-across-reorganisation/tip-replaced-by-subscription-header',
                                      f'a transaction verified in the tip block (height {tipn}) was served from the cache as verified after a header '
                                      f'subscription update replaced the header at that height with another block', {'height': tipn})
                if tipn < len(chain):
                    chain[tipn] = other_tip
            else:
                rec.log('tip_replaced.header_not_replaced')
        else:
            rec.log('tip_replaced.first_lookup_not_verified')
        rec.case(['tip_replaced', tipn], nontrivial=True)
    # ---- (5) the record in the wallet DATABASE (what transaction_show / transaction_list read): synced as verified at its height, then a
    # reorganisation drops it back into the mempool, the address history lists it unconfirmed and it is synced again.  The stored row must
    # no longer say "verified at h" (seeded break C08-I kept the old row for unconfirmed sightings)
    if getattr(ledger.db, 'db', None) is None:
        await ledger.db.open()
        _S['open_dbs'] = _S.get('open_dbs', []) + [ledger.db]
    dh = r.randrange(1, min(nh, len(hdrs)))
    stored_now = bytes(hdrs.io.getvalue())
    if dh < len(chain) and stored_now[dh * 112:(dh + 1) * 112] == chain[dh] and dh < len(blocks) and blocks[dh] and \
            M.root([t[1] for t in blocks[dh]]) == R.unpack(chain[dh])['merkle']:
        di = r.randrange(len(blocks[dh]))
        draw, dleaves = blocks[dh][di][0], [t[1] for t in blocks[dh]]
        dtxid = _txid(draw)
        dproof = {'merkle': [b[::-1].hex() for b in M.branch(dleaves, di)], 'pos': di, 'block_height': dh}
        net.batch_reply = {dtxid: (draw.hex(), dproof)}
        got = {}
        async for txs in ledger.request_transactions(((dtxid, dh),)):
            got.update(txs)
        dtx = got.get(dtxid)
        if dtx is not None and dtx.is_verified:
            o0 = dtx.outputs[0]
            address, h160 = o0.get_address(ledger), o0.pubkey_hash
            await ledger.db.save_transaction_io_batch([dtx], address, h160, f'{dtxid}:{dh}:')       # as _sync_and_save_batch does
            row1 = await ledger.db.get_transaction(txid=dtxid)
            # reorganisation: the server's chain forks at dh and is longer; the transaction is back in the mempool
            v3 = [stored_now[i * 112:(i + 1) * 112] for i in range(dh)]
            for k in range(len(hdrs) - dh + 1):
                v3.append(mine_on(v3, M.root([t[1] for t in new_block(1)]), ts_delta=811))
            net.server_chain = v3
            try:
                await asyncio.wait_for(ledger.receive_header([{'height': len(v3) - 1, 'hex': v3[-1].hex()}]), 60)
            except Exception as e:  # noqa
                rec.log('db_record.receive_header_raised.' + type(e).__name__)
            if bytes(hdrs.io.getvalue())[dh * 112:(dh + 1) * 112] == v3[dh] and row1 is not None and row1.is_verified:
                for i_ in range(dh, min(len(chain), len(v3))):
                    chain[i_] = v3[i_]
                net.batch_reply = {dtxid: (draw.hex(), {'block_height': 0})}
                got = {}
                async for txs in ledger.request_transactions(((dtxid, 0),)):
                    got.update(txs)
                if dtxid in got:
                    await ledger.db.save_transaction_io_batch([got[dtxid]], address, h160, f'{dtxid}:0:')
                    row2 = await ledger.db.get_transaction(txid=dtxid)
                    rec.hit('reorg.database_record_checked')
                    if row2 is not None and row2.is_verified:
                        rec.violation('C08/verified-without-valid-proof/database-record-after-reorganisation',
                                      f'the wallet database still records the transaction as verified at height {row2.height} after a reorganisation '
                                      f'replaced the header at {dh} and the transaction was synced again as unconfirmed', {'height': dh, 'row_height': row2.height})
            else:
                rec.log('db_record.reorg_not_applied_or_row_missing')
        rec.case(['db_record', dh], nontrivial=True)
    # ---- (2) verified through the cache, then a reorganisation replaces its block, then looked up through the cache again
    f = r.randrange(1, nh)                   # first replaced height
    victim = blocks[f] if chain[f] != fork_hdr or f != h else alt
    vi = r.randrange(len(victim))
    vraw, vleaves = victim[vi][0], [t[1] for t in victim]
    vtxid = _txid(vraw)
    vproof = {'merkle': [b[::-1].hex() for b in M.branch(vleaves, vi)], 'pos': vi, 'block_height': f}
    # variant `overlapping` (added after seeded break C08-G): the first lookup is a batch of two transactions of that block; the hub's
    # batch reply carries no proof for the second, so the ledger asks for it separately, and the reorganisation lands while that request
    # is outstanding.  Whatever becomes of the interrupted batch, the first transaction must not be served as verified afterwards.
    overlapping = len(victim) >= 2 and r.random() < 0.5
    v2 = list(chain[:f])                      # the server's new chain: forks at f, is longer than ours; the victim is back in the mempool
    for k in range(len(hdrs) - f + 1):
        v2.append(mine_on(v2, M.root([t[1] for t in new_block(1)]), ts_delta=799))

    async def reorganise():
        net.server_chain = v2
        try:
            await asyncio.wait_for(ledger.receive_header([{'height': len(v2) - 1, 'hex': v2[-1].hex()}]), 60)
            return True
        except Exception as e:  # noqa
            rec.log('reorg_cache.receive_header_raised.' + type(e).__name__)
            return False

    if overlapping:
        oi = (vi + 1) % len(victim)
        oraw = victim[oi][0]
        otxid = _txid(oraw)
        net.batch_reply = {vtxid: (vraw.hex(), vproof), otxid: (oraw.hex(), None)}
        net.merkle_reply = {(otxid, f): {'merkle': [b[::-1].hex() for b in M.branch(vleaves, oi)], 'pos': oi, 'block_height': f}}
        net.gate, net.entered = asyncio.Event(), asyncio.Event()

        async def first_lookup():
            async for _txs in ledger.request_transactions(((vtxid, f), (otxid, f)), cached=True):
                pass
        task = asyncio.get_running_loop().create_task(first_lookup())
        try:
            await asyncio.wait_for(net.entered.wait(), 30)
        except asyncio.TimeoutError:
            net.gate = None
            task.cancel()
            rec.log('reorg_cache.overlap_not_reached')
            return
        done = await reorganise()                     # ... while the proof request of the second transaction is outstanding
        net.gate.set()
        try:
            await asyncio.wait_for(task, 30)
        except Exception as e:  # noqa  (the unchanged tree aborts the interrupted batch with an AttributeError: logged)
            rec.log('reorg_cache.interrupted_batch_raised.' + type(e).__name__)
        net.gate = None
        if not done:
            return
        rec.hit('reorg.cache_checked_batch_in_flight')
    else:
        net.batch_reply = {vtxid: (vraw.hex(), vproof)}
        first = {}
        async for txs in ledger.request_transactions(((vtxid, f),), cached=True):
            first.update(txs)
        if not first or not list(first.values())[0].is_verified:
            rec.log('reorg_cache.first_lookup_not_verified(stale tail from scenario 1)')
            return
        if not await reorganise():
            return
    stored = bytes(hdrs.io.getvalue())
    if stored[f * 112:(f + 1) * 112] != v2[f]:
        rec.log('reorg_cache.reorg_not_applied')
        return
    rec.hit('reorg.cache_checked')
    net.batch_reply = {vtxid: (vraw.hex(), {'block_height': 0})}
    second = {}
    async for txs in ledger.request_transactions(((vtxid, 0),), cached=True):
        second.update(txs)
    for t in second.values():
        if t.is_verified:
            rec.violation('C08/verified-without-valid-proof/cached-across-reorganisation' + ('/batch-in-flight' if overlapping else ''),
                          f'a transaction verified at height {f} was returned from the cache as verified (height {t.height}) after a reorganisation '
                          f'replaced the block at that height; the stored header there no longer commits to it', {'first_replaced_height': f, 'tx_height': t.height})
    rec.case(['reorg_cache', f, nh], nontrivial=True)


async def _main_loop(rec, r, blocks, chain, nh, ledger, net, verify, expected, judge, Transaction, header_root):
    _S['dummy'] = None
    for height in range(1, len(blocks)):
        txs = blocks[height]
        n = len(txs)
        leaves = [t[1] for t in txs]
        if n == 1:
            rec.hit('shape.single_tx')
        if n == 64:
            rec.hit('shape.64')
        if any(len(lv) % 2 and len(lv) > 1 for lv in M.levels(leaves)):
            rec.hit('shape.odd_level')
        idxs = sorted(set([0, n - 1, n // 2] + [r.randrange(n) for _ in range(4)]))
        for idx in idxs:
            if rec.out_of_time():
                return
            raw = txs[idx][0]
            br = [b[::-1].hex() for b in M.branch(leaves, idx)]
            depth = len(br)
            genuine = {'merkle': br, 'pos': idx, 'block_height': height}
            # ---- genuine proof, three routes
            for route in ('direct', 'batch', 'fetch'):
                if route == 'fetch':
                    _S['fetch_reply'] = dict(genuine)
                got, position, exc = await verify(raw, height, 'fetch' if route == 'fetch' else dict(genuine), via_batch=route == 'batch')
                if not got or position != idx:
                    rec.violation(f'C08/genuine-proof-rejected/{route}',
                                  f'genuine proof for tx {idx} of {n} at height {height} not accepted via {route} (verified={got}, position={position}, exc={exc!r})',
                                  {'n': n, 'idx': idx, 'height': height, 'route': route})
                    return
                rec.hit('genuine.accepted')
                if route == 'batch':
                    rec.hit('genuine.via_single_batch')
            rec.case(['genuine', n, idx], nontrivial=n >= 2, sample={'block_txs': n, 'index': idx, 'height': height, 'branch_len': depth,
                                                                      'headers': nh} if idx == 0 else None)
            via = r.random() < 0.3
            # ---- the same Transaction object checked again after it was verified (multi-step; added after seeded break C08-B):
            # whatever the object said before, after a check it may only say "verified" if THIS check's proof reaches the header
            for cls, h2, m2 in (('reuse_bad_branch', height, dict(genuine, merkle=[r.randbytes(32).hex()] + br[1:]) if br else None),
                                ('reuse_other_height', height % (nh - 1) + 1 if nh > 2 else None, dict(genuine)),
                                ('reuse_height_no_header', r.choice([0, -1, nh, nh + 7, 10 ** 9]), dict(genuine)),
                                ('reuse_no_merkle_key_other_height', height % (nh - 1) + 1 if nh > 2 else None, {'block_height': height})):
                if m2 is None or h2 is None or (h2 == height and cls in ('reuse_other_height', 'reuse_no_merkle_key_other_height')):
                    continue
                obj = Transaction(raw, height=height)
                await ledger.maybe_verify_transaction(obj, height, dict(genuine))
                if not obj.is_verified:
                    break
                try:
                    await ledger.maybe_verify_transaction(obj, h2, m2)
                    got2, exc2 = bool(obj.is_verified), None
                except Exception as e:  # noqa
                    got2, exc2 = bool(obj.is_verified), e
                rec.hit('reuse.checked')
                want2 = expected(raw, h2, m2.get('merkle') or [], m2.get('pos', 0)) if 'merkle' in m2 else False
                if got2 and not want2:
                    rec.violation(f'C08/verified-without-valid-proof/{cls}',
                                  f'a transaction object verified at height {height} was checked again ({cls}: height {h2}) with a proof that does not '
                                  f'reach a header, and still says verified (height now {obj.height}, headers: {nh})',
                                  {'class': cls, 'first_height': height, 'second_height': h2, 'n_headers': nh, 'exc': repr(exc2)})
                rec.case(['reuse', n, idx, cls], nontrivial=True)
            # ---- single mutations
            for level in range(depth):
                for digit in sorted({0, 63, r.randrange(64)}):
                    m = dict(genuine, merkle=list(br))
                    e = m['merkle'][level]
                    m['merkle'][level] = e[:digit] + '0123456789abcdef'[(int(e[digit], 16) + 1 + r.randrange(15)) % 16] + e[digit + 1:]
                    got, _, exc = await verify(raw, height, m, via)
                    judge(f'branch element {level} digit {digit} changed', 'branch_digit', raw, height, m, got, exc, ['bd', n, idx, level, digit])
                m = dict(genuine, pos=idx ^ (1 << level))
                got, _, exc = await verify(raw, height, m, via)
                judge(f'position bit {level} flipped', 'pos_bit', raw, height, m, got, exc, ['pb', n, idx, level])
            for hb in (depth, depth + 3, 31):
                m = dict(genuine, pos=idx ^ (1 << hb))
                got, _, exc = await verify(raw, height, m, via)
                judge(f'position bit {hb} (above depth) flipped', 'pos_bit', raw, height, m, got, exc, ['pbh', n, idx, hb])
            if depth:
                for m, cls in ((dict(genuine, merkle=br[:-1]), 'truncate'), (dict(genuine, merkle=br[1:]), 'truncate')):
                    got, _, exc = await verify(raw, height, m, via)
                    judge('branch truncated', cls, raw, height, m, got, exc, ['tr', n, idx, len(m['merkle'])])
            for extra in (r.randbytes(32).hex(), br[-1] if br else txs[idx][1][::-1].hex()):
                m = dict(genuine, merkle=br + [extra])
                got, _, exc = await verify(raw, height, m, via)
                judge('branch extended by one', 'extend', raw, height, m, got, exc, ['ex', n, idx])
            # one byte of the transaction (inside an output amount so that it still parses)
            if raw[4:6] == b'\x00\x01':       # witness serialisation: the outputs are not at the end; change the amount through the codec
                ref_ = BT.decode(raw)
                p = r.randrange(8)
                ref_.outputs[-1].amount ^= 1 << (8 * p + r.randrange(7))
                b = bytearray(BT.encode_bip144(ref_))
            else:
                b = bytearray(raw)
                p = len(raw) - 4 - 25 - 1 - 8 + r.randrange(8)      # amount of the last P2PKH output
                b[p] ^= 1 << r.randrange(8)
            got, _, exc = await verify(bytes(b), height, dict(genuine), via)
            judge('one tx byte changed', 'tx_byte', bytes(b), height, genuine, got, exc, ['tb', n, idx, p % 8])
            # heights
            for h2, cls in ((height + 1, 'height'), (height - 1, 'height'), (r.randrange(1, nh), 'height'), (0, 'height_no_header'),
                            (-1, 'height_no_header'), (nh, 'height_no_header'), (nh + 5, 'height_no_header'), (10 ** 9, 'height_no_header')):
                if h2 == height:
                    continue
                got, _, exc = await verify(raw, h2, dict(genuine), via and h2 > 0)
                judge(f'height {h2} instead of {height}', cls, raw, h2, genuine, got, exc, ['h', n, idx, h2 - height if abs(h2) < 10 ** 6 else 'far'])
            # another transaction's proof / no merkle key
            if n > 1:
                j = (idx + 1 + r.randrange(n - 1)) % n
                m = {'merkle': [b_[::-1].hex() for b_ in M.branch(leaves, j)], 'pos': j, 'block_height': height}
                got, _, exc = await verify(raw, height, m, via)
                judge('proof of another transaction', 'foreign_proof', raw, height, m, got, exc, ['fp', n, idx, j])
            got, _, exc = await verify(raw, height, {'block_height': height}, False)
            judge('reply without merkle branch', 'no_merkle_key', raw, height, {'block_height': height}, got, exc, ['nm', n, idx])

"""C17 -- DHT wire codec is lossless for protocol messages and total on garbage.

[DIFF] real lbry.dht.serialization.{bencoding,datagram} against vlib/ref/bencode.py (iterative,
       independent) on every message shape (N1) and on compact addresses (N2);
[INV]  a real, started KademliaProtocol (mock transport, populated routing table and data
       store, virtual clock) fed through datagram_received with truncated / mutated / nested /
       retyped / huge / random datagrams, state compared before and after (N3, N4).

Oracle clauses (DESIGN section 4 C17; every clause cites the sentence of the statement it enforces)
  N1  "every request, response and error message encodes to a datagram that decodes back to the
      same message and that an independent bencode implementation reads identically"
      N1out: the same, for every datagram the node itself SENDS while under test.
  N2  "compact peer addresses round-trip"
  N3  "any datagram that is not a well-formed protocol message is dropped with the sender's failure
      recorded: it never raises out of the handler and never changes the routing table or the
      stored announcements".  Per malformed datagram:
        - the handler RETURNS (SIGALRM watchdog, confirmed by a line-bounded traced run that proves a loop
          state repeats: key C17/hang/...) and does not raise (key C17/escape/<Exc>@<innermost lbry function>);
        - PeerManager's failure table entry for the SENDER's address changed (C17/N3/failure-not-recorded/<class>:
          decoder-refused|decoder-accepted; .../recorded-for-claimed-contact-not-sender when it was booked on the
          contact whose node id the datagram merely claims);
        - buckets + ranges + contacts, data store, completed blobs, pending add/remove sets identical before/after
          (C17/N3/state-changed/<class>:<decoder>:<component>; a tcp port of an existing contact/announcement
          rewritten by a datagram that was then refused: .../tcp-port-updated-by-refused-datagram); ping queue logged;
        - once per batch the maintenance task runs (virtual time) and table/store are compared again.
  N4  well-formed (or arguable) datagrams: only "returns, does not raise" (effects belong to C12)

What counts as NOT well-formed (independent recogniser `classify`, no lbry code):
  * not a complete bencoded value (truncated, bad token ...) or not a dictionary;
  * field 0 not in {0,1,2}; field 1 not a 20-byte string; field 2 not a 48-byte string;
  * request: method not a byte string / not one of ping, store, findNode, findValue; args not a list;
    findNode/findValue without a 48-byte string key, page not an integer; store with fewer than three
    positional args, hash not 48 bytes, port not an integer in 1..65535, token not a 48-byte string
    (the token clause only on a node whose token check is live, see `tokens` below);
  * response without payload; error datagram whose two text fields are missing or not byte strings;
  * or: the real decoder itself refuses it (the handler then has to treat it as undecodable).
Arguable forms are NOT judged beyond "does not raise" (logged): trailing bytes after a complete value,
unsorted/duplicate keys, leading zeros, old-protocol store layout, negative page, port 65535, extra
args, invalid UTF-8 in error text, a 48-byte token with a wrong value, private/low-port senders.
"""
import asyncio
import collections
import hashlib
import json
import os
import random
import re
import signal
import socket
import struct
import sys
import traceback

from vlib import boot
from vlib.ref import bencode as rb

ID = 'C17'
LEVEL = 'exploration'
RULE = ('N1: seeded random messages of every shape (4 request constructors, pong/OK/contact lists 0..16/'
        'find-value dictionaries, error datagrams with ASCII and non-ASCII text); N2: every port 1..65535 for '
        'fixed IPs, every octet value, random addresses; N3/N4: a fresh real KademliaProtocol per batch '
        '(36 contacts, 7 stored blobs; token check in grace or live mode; sender unknown / a contact / '
        'unknown address claiming a contact id) fed with every truncation of 15 valid templates, every byte '
        'position x structural+bit-flip values (all 255 in thorough), sampled 2-3-byte mutations/insertions/'
        'deletions, nesting depths 1..65000, each field deleted/retyped/resized, unknown and kilobyte method names, '
        'huge integers and lengths, random strings up to 64 KiB, and valid traffic.  distinct = distinct datagram '
        'bytes x sender kind x token mode (or distinct message / address); non-trivial = every datagram that '
        'reached datagram_received')
ASSUMPTIONS = [
    'well-formedness is decided by an independent recogniser over vlib/ref/bencode.py (documented in the module docstring); '
    'arguable forms are only required not to raise',
    'the sender address is a valid public IPv4 address with port >= 1024 (others are logged, not judged)',
    'time is a virtual clock advanced 1 ms per datagram; the maintenance task is run by stepping the loop',
    'token check "live" = KademliaRPC.refresh_token() was called once and the 300 s start-up grace period is over; '
    '"grace" = fresh node (any token accepted by design) -- ill-typed tokens are judged only in live mode',
    'logging is disabled (log argument formatting is not exercised)',
]
REQUIRED_HITS = [
    'N1.msg_checked', 'N1.ref_reads_identically', 'N1.fields_reproduced', 'N1.shape.error-nonascii', 'N1.shape.resp-findvalue',
    'N1out.checked', 'N2.roundtrip_checked', 'N2.reverse_checked',
    'N3.malformed_fed', 'N3.no_raise_held', 'N3.failure_recorded_checked', 'N3.state_unchanged_checked',
    'N3.maintenance_checked', 'N3.live_token_malformed_store_fed', 'N4.fed',
    'fam.trunc', 'fam.mut1', 'fam.mutn', 'fam.nest', 'fam.retype', 'fam.huge', 'fam.rand', 'fam.valid', 'fam.replies',
    'sender.fresh', 'sender.contact', 'sender.spoof', 'tokens.live', 'tokens.grace', 'ref.self_check', 'fam.fixed',
    'N3.failure_recorded_held', 'N3.state_unchanged_held', 'N4.no_raise_held',
]

NODE_IP, NODE_UDP, NODE_TCP = '11.22.33.44', 4444, 3333
PV = b'protocolVersion'
METHODS = (b'ping', b'store', b'findNode', b'findValue')
_REF_OK = [False]


def plan(tier):
    # core.Recorder counts the budget in CPU seconds of the shard and caps wall time at 2.5x: 22 -> <= 55 s wall,
    # 340 -> <= 14.2 min wall.  The complete case list needs about 10 s (quick) / 170 s (thorough) CPU per shard.
    return {'shards': 16, 'budget_s': float(os.environ.get('VERIF_C17_BUDGET_S') or (22 if tier == 'quick' else 340))}


def H(tag, i=0):
    return hashlib.sha384(f'{tag}:{i}'.encode()).digest()


def ip_of(tag, i):
    h = hashlib.sha256(f'ip:{tag}:{i}'.encode()).digest()
    return f'{11 + h[0] % 80}.{h[1]}.{h[2]}.{1 + h[3] % 254}'


# ------------------------------------------------------------------------------ fixtures / reference
def shard_setup(rec, tier):
    rb.self_check()
    with open(os.path.join(boot.VERIF, 'fixtures', 'c17_vectors.json')) as f:
        fx = json.load(f)

    def val(x):
        if isinstance(x, dict) and set(x) == {'hex'}:
            return bytes.fromhex(x['hex'])
        if isinstance(x, dict) and set(x) == {'ascii'}:
            return x['ascii'].encode()
        if isinstance(x, dict):
            return {k.encode(): val(v) for k, v in x.items()}
        if isinstance(x, list):
            return [val(v) for v in x]
        return x

    for d in fx['datagrams']:
        raw = bytes.fromhex(d['hex']) if 'hex' in d else d['ascii'].encode()
        got, _, q = rb.decode_ex(raw, strict=False, int_keys=True)
        if d['strict']:
            assert rb.decode(raw, strict=True, int_keys=True) == got and not q, d['name']
        conv = {(str(k).encode() if isinstance(k, int) else k): v for k, v in got.items()}
        assert conv == val(d['fields']), ('reference disagrees with fixture', d['name'], conv)
    for d in fx['bencode']:
        raw = d['ascii'].encode()
        assert rb.decode(raw) == val(d['value']) and rb.encode(val(d['value'])) == raw, d
    for s in fx['bencode_reject']:
        try:
            rb.decode(s.encode(), strict=False)
        except rb.BencodeError:
            continue
        raise AssertionError(('reference accepts', s))
    _REF_OK[0] = True
    rec.hit('ref.self_check')
    rec.note('reference', 'vlib/ref/bencode.py self_check + fixtures/c17_vectors.json passed')


# ------------------------------------------------------------------------------ datagram specs
def materialise(spec):
    """compact JSON-able description -> datagram bytes (so that big datagrams replay from small files)"""
    if 'hex' in spec:
        return bytes.fromhex(spec['hex'])
    if 'rep' in spec:                     # prefix + unit*count + suffix [cut to a UDP-sized prefix]
        p, u, n, s = spec['rep']
        return (bytes.fromhex(p) + bytes.fromhex(u) * n + bytes.fromhex(s))[:spec.get('cut', 1 << 30)]
    if 'rand' in spec:                    # [seed, length, alphabet]
        seed, ln, alpha = spec['rand']
        r = random.Random(seed)
        if alpha == 'any':
            return r.randbytes(ln)
        if alpha == 'benc':
            a = b'ilde0123456789:-' + b'ilde01:'
            return bytes(r.choices(a, k=ln))
        if alpha == 'dgprefix':           # a valid header followed by noise
            head = rb.encode({0: 0, 1: H('r', seed)[:20], 2: H('n', seed)}, int_keys=True)[:-1]
            return head + r.randbytes(max(0, ln - len(head)))
        raise ValueError(alpha)
    raise ValueError(f'bad datagram spec {spec}')


def spec_of(data):
    return {'hex': data.hex()}


# ------------------------------------------------------------------------------ recogniser
def _conv_keys(d, first_wins=False):
    out, collide = {}, False
    for k, v in d.items():
        kk = str(k).encode() if isinstance(k, int) else k
        if kk in out:
            collide = True
            if first_wins:
                continue
        out[kk] = v
    return out, collide


def classify(data):
    """independent recogniser -> (verdict, reason, info).  verdict: malformed | ambiguous | wellformed.
    info: {'kind': request|response|error|None, 'method':.., 'token_malformed': bool}"""
    info = {'kind': None, 'token_malformed': False}
    try:
        prim, _, quirks = rb.decode_ex(data, strict=False, int_keys=True)
    except rb.BencodeError as e:
        return 'malformed', ('truncated' if e.reason in ('truncated', 'empty') else 'bad-syntax'), info
    res = _classify_prim(prim, quirks, info)
    if 'dict-duplicate-key' in quirks or (isinstance(prim, dict) and _conv_keys(prim)[1]):
        # which value of a duplicated key wins is arguable: judged malformed only if it is malformed either way
        info2 = {'kind': None, 'token_malformed': False}
        prim2 = rb.decode_ex(data, strict=False, int_keys=True, dup='first')[0]
        res2 = _classify_prim(prim2, quirks, info2, first_wins=True)
        if res[0] == 'malformed' and res2[0] == 'malformed':
            return res
        return 'ambiguous', 'duplicate-keys(which-value-wins-is-arguable)', {'kind': info.get('kind'), 'token_malformed': False}
    return res


def _classify_prim(prim, quirks, info, first_wins=False):
    if not isinstance(prim, dict):
        return 'malformed', 'not-a-dict', info
    conv, collide = _conv_keys(prim, first_wins)
    amb = []
    if quirks:
        amb.append('quirk:' + sorted(quirks)[0])
    t = conv.get(b'0')
    if not isinstance(t, int) or t not in (0, 1, 2):
        return 'malformed', 'bad-packet-type', info
    rpc = conv.get(b'1')
    if not isinstance(rpc, bytes):
        return 'malformed', 'rpc_id-not-bytes', info
    if len(rpc) != 20:
        return 'malformed', 'rpc_id-wrong-length', info
    nid = conv.get(b'2')
    if not isinstance(nid, bytes):
        return 'malformed', 'node_id-not-bytes', info
    if len(nid) != 48:
        return 'malformed', 'node_id-wrong-length', info
    if t == 1:
        info['kind'] = 'response'
        if b'3' not in conv:
            return 'malformed', 'response-without-payload', info
    elif t == 2:
        info['kind'] = 'error'
        for k in (b'3', b'4'):
            if k not in conv:
                return 'malformed', 'error-field-missing', info
            if not isinstance(conv[k], bytes):
                return 'malformed', 'error-field-not-bytes', info
            try:
                conv[k].decode('utf-8')
            except UnicodeDecodeError:
                amb.append('error-text-not-utf8')
    else:
        info['kind'] = 'request'
        m = conv.get(b'3')
        if not isinstance(m, bytes):
            return 'malformed', 'method-not-bytes', info
        if m not in METHODS:
            return 'malformed', 'unknown-method', info
        info['method'] = m.decode()
        args = conv.get(b'4', [])
        if not isinstance(args, list):
            return 'malformed', 'args-not-list', info
        if args and isinstance(args[-1], dict):
            pos, kw = args[:-1], args[-1]
        else:
            pos, kw = args, {}
        if m == b'ping':
            if pos:
                amb.append('ping-with-args')
        elif m in (b'findNode', b'findValue'):
            if not pos:
                return 'malformed', 'find-without-key', info
            if not isinstance(pos[0], bytes):
                return 'malformed', 'find-key-not-bytes', info
            if len(pos[0]) != 48:
                return 'malformed', 'find-key-wrong-length', info
            if len(pos) > 1:
                amb.append('find-extra-args')
            if b'p' in kw and m == b'findValue':
                if not isinstance(kw[b'p'], int):
                    return 'malformed', 'page-not-int', info
                if kw[b'p'] < 0:
                    amb.append('negative-page')
        else:  # store
            if len(pos) == 1 and isinstance(kw, dict) and b'token' in kw:
                amb.append('old-protocol-store-layout')
            elif len(pos) < 3:
                return 'malformed', 'store-too-few-args', info
            else:
                bh, tok, port = pos[0], pos[1], pos[2]
                if not isinstance(bh, bytes):
                    return 'malformed', 'store-hash-not-bytes', info
                if len(bh) != 48:
                    return 'malformed', 'store-hash-wrong-length', info
                if not isinstance(port, int):
                    return 'malformed', 'store-port-not-int', info
                if port <= 0 or port >= 65536:
                    return 'malformed', 'store-port-out-of-range', info
                if port == 65535:
                    amb.append('store-port-65535')
                if not isinstance(tok, bytes) or len(tok) != 48:
                    info['token_malformed'] = True
                if len(pos) < 5:
                    amb.append('store-3-or-4-args')
    if amb:
        return 'ambiguous', amb[0], info
    return 'wellformed', info['kind'], info


# ------------------------------------------------------------------------------ node harness
class Transport:
    def __init__(self):
        self.sent = []

    def sendto(self, data, addr=None):
        self.sent.append((bytes(data), addr))

    def is_closing(self):
        return False

    def close(self):
        pass

    def abort(self):
        pass

    def get_extra_info(self, name, default=None):
        return default


_RP = {}


def _realpath(fn):
    v = _RP.get(fn)
    if v is None:
        v = _RP[fn] = os.path.realpath(fn)
    return v


def lbry_frame(exc):
    """(qualified function name, 'file:line') of the innermost frame inside the lbry tree"""
    best = None
    tb = exc.__traceback__
    root = _realpath(boot.REPO) + os.sep
    n = 0
    while tb is not None and n < 100000:
        co = tb.tb_frame.f_code
        fn = _realpath(co.co_filename)
        if fn.startswith(root + 'lbry' + os.sep):
            best = (getattr(co, 'co_qualname', co.co_name), fn[len(root):] + ':' + str(tb.tb_lineno))
        tb = tb.tb_next
        n += 1
    return best or ('<outside-lbry>', '?')


class Node:
    """a real, started KademliaProtocol on a private loop with a virtual clock"""

    def __init__(self, cfg):
        boot.import_lbry()
        from lbry.dht.protocol.protocol import KademliaProtocol
        from lbry.dht.peer import PeerManager, make_kademlia_peer
        from lbry.dht import peer as peer_mod
        self.cfg = cfg
        self.seed = cfg.get('seed', 0)
        self.tokens = cfg.get('tokens', 'grace')
        make_kademlia_peer.cache_clear()
        self.mk = make_kademlia_peer
        self.loop = asyncio.new_event_loop()
        self.vt = [100000.0]
        self.loop.time = lambda: self.vt[0]
        self.pm = PeerManager(self.loop)
        self.node_id = H('node', self.seed)
        self.proto = KademliaProtocol(self.loop, self.pm, self.node_id, NODE_IP, NODE_UDP, NODE_TCP)
        self.transport = Transport()
        self.proto.connection_made(self.transport)
        self.out = []          # (message object, bytes) captured at _send
        orig_send = self.proto._send

        def send_spy(peer, message):
            n = len(self.transport.sent)
            try:
                return orig_send(peer, message)
            finally:
                if len(self.transport.sent) > n:
                    self.out.append((message, self.transport.sent[-1][0]))
        self.proto._send = send_spy
        self.proto.node_rpc.token_secret = H('secret', self.seed)
        self.failure_calls = 0
        self.contacts = []
        self.blobs = []
        self.loop.run_until_complete(self._build())
        if self.tokens == 'live':
            self.proto.node_rpc.refresh_token()
            self.proto.node_rpc.token_secret = H('secret2', self.seed)
            self.proto.started_listening_time = 0
        else:
            self.proto.started_listening_time = self.vt[0] - 10
        self._snap = None

    async def _build(self):
        p = self.proto
        p.start()
        ids = [H(f'contact{self.seed}', i) for i in range(24)]
        base = int.from_bytes(self.node_id, 'big')
        for i in range(12):     # ids sharing 1..12*3 leading bits with the node: forces several splits
            bit = 383 - (i * 3 + 1)
            v = (base ^ (1 << bit)) ^ (int.from_bytes(H('low', i), 'big') & ((1 << bit) - 1))
            ids.append(v.to_bytes(48, 'big'))
        for i, nid in enumerate(ids):
            peer = self.mk(nid, ip_of(f'c{self.seed}', i), 4000 + i)
            self.pm.report_last_replied(peer.address, peer.udp_port)
            self.pm.update_contact_triple(peer.node_id, peer.address, peer.udp_port)
            p.add_peer(peer)
            await self.settle_async()
        self.contacts = p.routing_table.get_peers()
        if len(self.contacts) < 16 or len(p.routing_table.buckets) < 3:
            raise RuntimeError(f'harness: routing table not populated ({len(self.contacts)} contacts, '
                               f'{len(p.routing_table.buckets)} buckets)')
        for b in range(7):
            bh = H(f'blob{self.seed}', b)
            self.blobs.append(bh)
            for k in range(1 if b < 5 else (3 if b == 5 else 12)):
                if (b + k) % 2 == 0:
                    c = self.contacts[(b * 5 + k) % len(self.contacts)]
                    peer = self.mk(c.node_id, c.address, c.udp_port)
                    peer.update_tcp_port(3333 + k)
                else:
                    peer = self.mk(H(f'storer{self.seed}', b * 20 + k), ip_of(f's{self.seed}', b * 20 + k), 5000 + k,
                                   3333 + k)
                p.data_store.add_peer_to_blob(peer, bh)
        p.data_store.completed_blobs.add(self.blobs[0].hex())

    async def settle_async(self, rounds=3):
        for _ in range(rounds):
            self.vt[0] += 0.11
            for _ in range(6):
                await asyncio.sleep(0)

    def settle(self):
        self.loop.run_until_complete(self.settle_async())
        self._snap = None

    def tick(self):
        self.vt[0] += 0.001

    def snapshot(self):
        p = self.proto

        def ident(x):
            return (x.node_id, x.address, x.udp_port)
        rt = tuple((b.range_min, b.range_max, tuple(ident(x) for x in b.peers)) for b in p.routing_table.buckets)
        ds = tuple(sorted(((k, tuple((ident(x), ts) for x, ts in v)) for k, v in p.data_store._data_store.items()),
                          key=lambda kv: repr(kv[0])))
        ds = (ds, frozenset(p.data_store.completed_blobs))
        tcp = tuple(sorted({(ident(x), x.tcp_port) for b in p.routing_table.buckets for x in b.peers} |
                           {(ident(x), x.tcp_port) for v in p.data_store._data_store.values() for x, _ in v},
                           key=repr))
        pend = (frozenset(ident(x) for x in p._to_add), frozenset(ident(x) for x in p._to_remove))
        pq = frozenset(ident(x) for x in p.ping_queue._pending_contacts)
        return {'routing_table': rt, 'data_store': ds, 'tcp_port': tcp, 'pending_sets': pend, 'ping_queue': pq}

    def snap(self):
        if self._snap is None:
            self._snap = self.snapshot()
        return self._snap

    def failure_entry(self, addr):
        return self.pm._rpc_failures.cache.get(addr)

    def sender(self, s):
        """-> (address tuple, node_id the templates should carry, kind)"""
        kind, i = s['kind'], s.get('i', 0)
        if kind == 'fresh':
            return (ip_of('fresh', i), 5000 + i % 1000), H('fresh', i)
        c = self.contacts[i % len(self.contacts)]
        if kind == 'contact':
            return (c.address, c.udp_port), c.node_id
        if kind == 'spoof':
            return (ip_of('spoof', i), 6000 + i % 1000), c.node_id
        if kind == 'badaddr':
            return (['10.1.2.3', '127.0.0.1', '192.168.1.9', '0.0.0.0', '224.0.0.1', '100.64.0.1'][i % 6], 5000), H('bad', i)
        if kind == 'lowport':
            return (ip_of('low', i), [0, 1, 53, 1023][i % 4]), H('lowp', i)
        raise ValueError(kind)

    def valid_token(self, ip):
        return hashlib.sha384(self.proto.node_rpc.token_secret + bytes(int(o) for o in ip.split('.'))).digest()

    def close(self):
        try:
            self.proto.stop()
            pending = [t for t in asyncio.all_tasks(self.loop) if not t.done()]
            for t in pending:
                t.cancel()
            if pending:
                self.loop.run_until_complete(asyncio.gather(*pending, return_exceptions=True))
        finally:
            self.loop.close()
            self.mk.cache_clear()


# ------------------------------------------------------------------------------ templates
def contact_triples(r, n):
    return [[r.randbytes(48), f'{r.randrange(1, 224)}.{r.randrange(256)}.{r.randrange(256)}.{r.randrange(1, 255)}'.encode(),
             r.randrange(1024, 65536)] for _ in range(n)]


def compact(r):
    return bytes([r.randrange(1, 224), r.randrange(256), r.randrange(256), r.randrange(1, 255)]) + \
        struct.pack('>H', r.randrange(1, 65536)) + r.randbytes(48)


def templates(node, tseed, sender_addr, nid):
    """name -> primitive (int-key dict) of a VALID datagram, built without lbry code"""
    r = random.Random(tseed)
    rpc = lambda: r.randbytes(20)  # noqa: E731
    key = r.randbytes(48)
    stored = node.blobs[5] if node else r.randbytes(48)
    tok = node.valid_token(sender_addr[0]) if node else r.randbytes(48)
    t = {
        'ping': {0: 0, 1: rpc(), 2: nid, 3: b'ping', 4: [{PV: 1}]},
        'store': {0: 0, 1: rpc(), 2: nid, 3: b'store', 4: [r.randbytes(48), tok, 3333, nid, 0, {PV: 1}]},
        'findNode': {0: 0, 1: rpc(), 2: nid, 3: b'findNode', 4: [key, {PV: 1}]},
        'findValue': {0: 0, 1: rpc(), 2: nid, 3: b'findValue', 4: [key, {b'p': 0, PV: 1}]},
        'findValue-stored-p1': {0: 0, 1: rpc(), 2: nid, 3: b'findValue', 4: [stored, {b'p': 1, PV: 1}]},
        'resp-pong': {0: 1, 1: rpc(), 2: nid, 3: b'pong'},
        'resp-OK': {0: 1, 1: rpc(), 2: nid, 3: b'OK'},
        'resp-contacts0': {0: 1, 1: rpc(), 2: nid, 3: []},
        'resp-contacts1': {0: 1, 1: rpc(), 2: nid, 3: contact_triples(r, 1)},
        'resp-contacts8': {0: 1, 1: rpc(), 2: nid, 3: contact_triples(r, 8)},
        'resp-contacts16': {0: 1, 1: rpc(), 2: nid, 3: contact_triples(r, 16)},
        'resp-findvalue': {0: 1, 1: rpc(), 2: nid, 3: {b'token': r.randbytes(48), b'contacts': contact_triples(r, 3),
                                                      PV: 1, b'p': 2, key: [compact(r) for _ in range(4)]}},
        'error-ascii': {0: 2, 1: rpc(), 2: nid, 3: b"<class 'ValueError'>", 4: b'Invalid token'},
        'error-nonascii': {0: 2, 1: rpc(), 2: nid, 3: 'Erreur'.encode(), 4: 'jeton invalide: é中\U0001f600'.encode()},
        'ping-bytes-keys': {b'0': 0, b'1': rpc(), b'2': nid, b'3': b'ping', b'4': [{PV: 1}]},
    }
    return t


TEMPLATE_NAMES = ['ping', 'store', 'findNode', 'findValue', 'findValue-stored-p1', 'resp-pong', 'resp-OK', 'resp-contacts0',
                  'resp-contacts1', 'resp-contacts8', 'resp-contacts16', 'resp-findvalue', 'error-ascii', 'error-nonascii',
                  'ping-bytes-keys']
REQUEST_TEMPLATES = TEMPLATE_NAMES[:5]


# ------------------------------------------------------------------------------ termination watchdog
class _Timeout(BaseException):
    pass


def _alarm(signum, frame):
    raise _Timeout()


def call_with_watchdog(fn, seconds):
    """-> ('ok', result) | ('raised', exc) | ('timeout', exc with traceback).  SIGALRM based: pure-Python loops
    are interruptible.  Only a first filter -- a timeout is CONFIRMED by traced_decode before it is judged."""
    old = signal.signal(signal.SIGALRM, _alarm)
    try:
        signal.setitimer(signal.ITIMER_REAL, seconds)
        try:
            return 'ok', fn()
        finally:
            signal.setitimer(signal.ITIMER_REAL, 0)
    except _Timeout as e:
        return 'timeout', e
    except BaseException as e:  # noqa
        if isinstance(e, (KeyboardInterrupt, SystemExit, MemoryError)):
            raise
        return 'raised', e
    finally:
        signal.signal(signal.SIGALRM, old)


MAX_TRACE_LINES = 3_000_000      # a terminating parse of <= 64 KiB executes well under 1e6 lines
_WHILE_LINES = {}


def _while_lines(code):
    """line numbers of `while` statements in the file of `code` (only a while loop -- or recursion, which ends in
    RecursionError -- can fail to terminate; for-loops over finite containers cannot)"""
    fn = code.co_filename
    if fn not in _WHILE_LINES:
        import ast
        try:
            with open(fn, 'rb') as f:
                tree = ast.parse(f.read())
            _WHILE_LINES[fn] = {n.lineno for n in ast.walk(tree) if isinstance(n, ast.While)}
        except (OSError, SyntaxError):
            _WHILE_LINES[fn] = set()
    return _WHILE_LINES[fn]


def traced_decode(data):
    """run the real decode_datagram under sys.settrace, bounded by executed LINES (deterministic, load independent).
    -> ('returned'|'raised', None) | ('cycle', detail) | ('line-budget', detail).
    'cycle': inside ONE frame of a lbry function the head of a `while` loop was reached again with all integer locals
    identical to an earlier visit (the decoder's only loop state is its index) AND the call then still had not returned
    after max(200 000, 40 x len(data)) further lines."""
    from lbry.dht.serialization.datagram import decode_datagram
    root = _realpath(boot.REPO) + os.sep + 'lbry' + os.sep
    seen = {}
    count = [0]
    found = []
    cand = []

    class _Stop(BaseException):
        pass

    def local(frame, event, arg):
        if event == 'line':
            count[0] += 1
            if cand:
                if count[0] > cand[0][0]:
                    found.append(('cycle', cand[0][1]))
                    raise _Stop()
                return local
            if count[0] > MAX_TRACE_LINES:
                found.append(('line-budget', f'{MAX_TRACE_LINES} lines executed without returning; innermost '
                                             f'{frame.f_code.co_name}:{frame.f_lineno}'))
                raise _Stop()
            if frame.f_lineno in _while_lines(frame.f_code):
                ints = tuple(sorted((k, v) for k, v in frame.f_locals.items() if isinstance(v, int) and not isinstance(v, bool)))
                fs = seen.setdefault(id(frame), set())
                st = (frame.f_lineno, ints)
                if st in fs and ints:
                    cand.append((count[0] + max(200_000, 40 * len(data)),
                                 f'{frame.f_code.co_name} (line {frame.f_lineno}: `while` head) reached again in the same frame '
                                 f'with identical integer locals {dict(ints)}; still running '
                                 f'{max(200_000, 40 * len(data))} lines later'))
                fs.add(st)
        elif event == 'return':
            seen.pop(id(frame), None)
        return local

    def tracer(frame, event, arg):
        if event == 'call' and _realpath(frame.f_code.co_filename).startswith(root):
            return local
        return None
    sys.settrace(tracer)
    try:
        decode_datagram(data)
        out = ('returned', None)
    except _Stop:
        out = found[0]
    except BaseException as e:  # noqa
        if isinstance(e, (KeyboardInterrupt, SystemExit, MemoryError)):
            raise
        out = ('raised', None)
    finally:
        sys.settrace(None)
    return out


_NEG_LEN = re.compile(rb'-\d+:')     # only decides WHEN the (slow) traced run is done up front; never the verdict
_HANG_FED = [0]
_IN_REPRO = [False]

GROUP = {
    'truncated': 'not-bencode', 'bad-syntax': 'not-bencode', 'not-a-dict': 'not-bencode',
    'rpc_id-not-bytes': 'field-type', 'node_id-not-bytes': 'field-type', 'find-key-not-bytes': 'field-type',
    'store-hash-not-bytes': 'field-type', 'args-not-list': 'field-type', 'method-not-bytes': 'field-type',
    'error-field-not-bytes': 'field-type', 'page-not-int': 'field-type', 'store-port-not-int': 'field-type',
    'rpc_id-wrong-length': 'id-length', 'node_id-wrong-length': 'id-length',
    'bad-packet-type': 'envelope', 'response-without-payload': 'envelope', 'error-field-missing': 'envelope',
    'unknown-method': 'unknown-method',
    'find-without-key': 'args-do-not-fit', 'find-key-wrong-length': 'args-do-not-fit', 'store-too-few-args': 'args-do-not-fit',
    'store-hash-wrong-length': 'args-do-not-fit', 'store-port-out-of-range': 'args-do-not-fit',
    'store-token-malformed': 'store-token-malformed', 'real-decoder-rejects': 'undecodable',
}


# ------------------------------------------------------------------------------ the monitor around datagram_received
def feed(rec, node, data, sender, origin, spec=None, single=False):
    """one datagram through the real handler with all N3/N4/N1out oracles.  returns True if no violation"""
    boot.import_lbry()
    from lbry.dht.serialization.datagram import decode_datagram
    addr, _nid = node.sender(sender)
    skind = sender['kind']
    verdict, reason, info = classify(data)
    # ---- does the REAL decoder refuse it / return at all?  (pure function call, no node state)
    real_exc = None
    hang = None
    if _NEG_LEN.search(data):
        st, detail = traced_decode(data)
        rec.hit('hang.traced_upfront')
        if st in ('cycle', 'line-budget'):
            hang = (st, detail)
    if hang is None:
        st, val = call_with_watchdog(lambda: decode_datagram(data), 2.0)
        if st == 'raised':
            real_exc = val
        elif st == 'timeout':
            st2, detail = traced_decode(data)
            if st2 in ('cycle', 'line-budget'):
                hang = (st2, detail)
            else:
                rec.log('slow_decode_over_2s_but_terminates')
                real_exc = None if st2 == 'returned' else RuntimeError('raised (slow)')
    if (real_exc is not None or hang) and verdict != 'malformed':
        rec.log(f'real_decoder_rejects_what_recogniser_accepts:{verdict}:{reason}')
        verdict, reason = 'malformed', 'real-decoder-rejects'
    if verdict != 'malformed' and info.get('token_malformed'):
        if node.tokens == 'live':
            verdict, reason = 'malformed', 'store-token-malformed'
            rec.hit('N3.live_token_malformed_store_fed')
        else:
            verdict, reason = 'ambiguous', 'store-token-malformed-in-grace-period'
    group = GROUP.get(reason, reason)
    decoder = 'decoder-refused' if real_exc is not None else 'decoder-accepted'
    judged_sender = skind in ('fresh', 'contact', 'spoof')
    rec.case(b'%s|%s|' % (skind.encode(), node.tokens.encode()) + data,
             sample={'origin': origin, 'datagram': data[:96], 'len': len(data), 'class': f'{verdict}:{reason}'}
             if rec.evaluations % 997 == 0 else None)
    rec.hit('fam.' + origin.split(':')[0])
    rec.hit('sender.' + skind)
    rec.hit('tokens.' + node.tokens)
    rec.hit(f'class.{verdict}')
    ok = True
    escaped = None
    short = data[:80].hex() + ('..' if len(data) > 80 else '')

    def report(key, what, witness):
        nonlocal ok
        ok = False
        if rec.violation_counts[key] + sum(1 for p in _PENDING if p[0] == key) >= 3:
            _OVER[key] += 1                         # counted; only the first three per shard keep a witness
            return
        w = dict(witness() if callable(witness) else witness)
        w.update({'datagram': data if len(data) <= 2048 else {'len': len(data), 'head': data[:200]}, 'origin': origin,
                  'sender': sender, 'sender_address': list(addr), 'tokens': node.tokens, 'class': f'{verdict}:{reason}',
                  'real_decoder': ('never returns' if hang else None) if real_exc is None
                  else f'{type(real_exc).__name__}: {str(real_exc)[:120]}'})
        cand = None
        if not single:
            sp = spec if spec is not None else (spec_of(data) if len(data) <= 8192 else None)
            if sp is not None:
                cand = {'fam': 'single', 'node': node.cfg, 'sender': sender, 'dg': sp, 'origin': origin}
        # a failure of the pure decode step depends on the datagram alone: no reproduction run needed
        pure = bool(hang) or (escaped is not None and real_exc is not None and type(escaped) is type(real_exc))
        if single:
            rec.violation(key, what, w)
        else:
            _PENDING.append((key, what, w, cand, pure))   # emitted by flush_pending() once this batch's node is closed

    # ---- "is dropped": the handler has to RETURN.  A datagram on which the decoder provably never returns is fed to
    # the node itself only once per process (it costs the full watchdog time); the handler calls the same decoder first.
    if hang:
        rec.hit('hang.detected')
        fed = None
        if (_HANG_FED[0] < 1 or single) and not _IN_REPRO[0]:
            _HANG_FED[0] += 1
            node.tick()
            st, val = call_with_watchdog(lambda: node.proto.datagram_received(data, addr), 1.0)
            fed = {'ok': 'returned', 'raised': f'raised {type(val).__name__}', 'timeout': 'did not return within 1 s'}[st]
            node._snap = None
            where = lbry_frame(val)[0] if st == 'timeout' else '?'
            rec.hit('hang.fed_to_handler')
            if st != 'timeout':
                rec.log('hang.decoder_loops_but_handler_returned')
        else:
            where = None
        fn = (hang[1].split(' ')[0] if hang[0] == 'cycle' else hang[1].split('innermost ')[-1].split(':')[0])
        report(f'C17/hang/{"infinite-loop" if hang[0] == "cycle" else "no-return"}@{fn}',
               f'the decoder never returns for a {len(data)}-byte datagram [{reason}; {origin}] {short}: {hang[1]}',
               {'clause': 'N3', 'proof': hang[1], 'kind': hang[0], 'datagram_received': fed or 'not fed again (same decoder call, '
                'protocol.py datagram_received -> decode_datagram); fed once per process', 'interrupted_in': where})
        rec.hit('N3.malformed_fed')
        return ok

    node.tick()
    if skind == 'contact':      # the contact keeps answering OUR requests between its datagrams, i.e. stays a good contact
        node.pm.report_last_replied(addr[0], addr[1])
        node.tick()
    before = node.snap()
    fail_before = node.failure_entry(addr)
    all_fail_before = dict(node.pm._rpc_failures.cache) if skind == 'spoof' else None
    nout = len(node.out)
    st, val = call_with_watchdog(lambda: node.proto.datagram_received(data, addr), 10.0)
    escaped = val if st == 'raised' else None
    if st == 'timeout':
        # the decoder alone terminates (checked above), so this would be a loop in the handler itself; a 10 s stall can
        # also be machine load, therefore it is judged only if a second attempt does not return within 60 s either
        fn, where = lbry_frame(val)
        st2, val2 = call_with_watchdog(lambda: node.proto.datagram_received(data, addr), 60.0)
        node._snap = None
        if st2 == 'timeout':
            fn2, where2 = lbry_frame(val2)
            report(f'C17/hang/no-return@{fn2}', f'datagram_received did not return within 10 s and again within 60 s for a '
                                                f'{len(data)}-byte datagram [{reason}; {origin}] {short} (interrupted at {where}, {where2})',
                   {'clause': 'N3', 'interrupted_at': [where, where2]})
        else:
            rec.log('handler_slower_than_10s_but_returned_on_second_attempt')
        return ok
    node._snap = None
    after = node.snap()
    fail_after = node.failure_entry(addr)

    # ---- "never raises out of the node's datagram handler" (N3 and N4)
    if escaped is not None:
        fn, where = lbry_frame(escaped)
        clause = 'N3' if verdict == 'malformed' else 'N4'
        report(f'C17/escape/{type(escaped).__name__}@{fn}',
               f'datagram_received raised {type(escaped).__name__} ({where}) for a {len(data)}-byte {verdict} datagram '
               f'[{reason}; {origin}] {short}',
               lambda: {'clause': clause, 'exception': f'{type(escaped).__name__}: {str(escaped)[:200]}', 'where': where,
                        'failure_recorded': fail_after != fail_before,
                        'traceback': [f'{f.filename.split("/")[-1]}:{f.lineno}:{f.name}'
                                      for f in traceback.extract_tb(escaped.__traceback__)[-6:]]})
    else:
        rec.hit('N3.no_raise_held' if verdict == 'malformed' else 'N4.no_raise_held')
    changed = [k for k in before if before[k] != after[k]]
    if 'tcp_port' in changed:       # only a CHANGED port of an identity present before and after, and only when the
        b, a = dict(before['tcp_port']), dict(after['tcp_port'])        # datagram was otherwise refused
        if all(b[k] == a[k] for k in b if k in a) or 'data_store' in changed or 'routing_table' in changed:
            changed.remove('tcp_port')
    if verdict == 'malformed':
        rec.hit('N3.malformed_fed')
        rec.hit('N3.reason.' + reason)
        if judged_sender:
            # ---- "dropped with the sender's failure recorded"
            if escaped is None:
                rec.hit('N3.failure_recorded_checked')
                if fail_after == fail_before:
                    handled = len(node.out) > nout
                    elsewhere = None
                    if skind == 'spoof':
                        elsewhere = [list(k) for k, v in node.pm._rpc_failures.cache.items() if all_fail_before.get(k) != v]
                    if elsewhere:
                        key = 'C17/N3/failure-not-recorded/recorded-for-claimed-contact-not-sender'
                    else:
                        key = f'C17/N3/failure-not-recorded/{group}:{decoder}'
                    report(key,
                           f'no failure recorded for sender {addr[0]}:{addr[1]} after a {verdict} datagram [{reason}; {origin}] '
                           f'{short}' + (' -- the node ANSWERED it' if handled else '') +
                           (f' -- a failure was recorded for {elsewhere} instead' if elsewhere else ''),
                           {'failure_entry_before': fail_before, 'failure_entry_after': fail_after,
                            'node_replied_with': [d[:120] for _, d in node.out[nout:]],
                            'failure_recorded_for_other_address': elsewhere})
                else:
                    rec.hit('N3.failure_recorded_held')
            # ---- "never changes the routing table or the stored announcements"
            rec.hit('N3.state_unchanged_checked')
            for comp in changed:
                if comp == 'ping_queue':
                    rec.log('N3.ping_queue_changed_by_malformed:' + group)
                    continue
                report('C17/N3/state-changed/tcp-port-updated-by-refused-datagram' if comp == 'tcp_port' else
                       f'C17/N3/state-changed/{group}:{decoder}:{comp}',
                       f'{comp} changed by a {verdict} datagram [{reason}; {origin}] {short}',
                       {'component': comp, 'before': _diffable(before[comp]), 'after': _diffable(after[comp])})
            if not changed:
                rec.hit('N3.state_unchanged_held')
        else:
            rec.log(f'unjudged_sender:{skind}:failure_recorded={fail_after != fail_before}')
    else:
        rec.hit('N4.fed')
        if changed:
            rec.log(f'N4.state_changed_by_{verdict}:' + ','.join(changed))
        if verdict == 'ambiguous':
            rec.log('ambiguous:' + reason + (':accepted' if real_exc is None else ':refused'))
    # ---- N1 on what the node SENT
    for msg, raw in node.out[nout:]:
        check_outgoing(rec, msg, raw, report)
    del node.out[:]
    del node.transport.sent[:]
    return ok


def _failure_delta(node, addr):
    return [[list(k), list(v)] for k, v in list(node.pm._rpc_failures.cache.items())[-3:] if k != addr]


def _diffable(x):
    s = repr(x)
    return s if len(s) < 1500 else s[:700] + ' ... ' + s[-700:]


_PENDING = []
_OVER = collections.Counter()


def flush_pending(rec):
    """emit the violations of a finished batch; each gets a single-datagram replay case when the datagram alone,
    on a fresh node, produces the same mechanism key (otherwise the replay file holds the whole batch)"""
    items, _PENDING[:] = list(_PENDING), []
    for key, what, w, cand, pure in items:
        case = None
        if cand is not None:
            if pure or _reproduces(cand, key):
                case = cand
            else:
                w['note'] = 'did not reproduce on a fresh node with this datagram alone; the replay file holds the whole batch'
        rec.violation(key, what, w, case=case)
    for k, n in _OVER.items():
        rec.violation_counts[k] += n
    _OVER.clear()


def _reproduces(case, key):
    from vlib import core
    r2 = core.Recorder(ID, 'quick', 0, budget_s=3600)
    _IN_REPRO[0] = True
    try:
        run_single(r2, case)
    except Exception:  # noqa -- a reproduction attempt must not kill the batch
        return False
    finally:
        _IN_REPRO[0] = False
    return r2.violation_counts.get(key, 0) > 0


def check_outgoing(rec, msg, raw, report):
    from lbry.dht.serialization.datagram import decode_datagram, ErrorDatagram, ResponseDatagram
    rec.hit('N1out.checked')
    cls = type(msg).__name__
    fields = [getattr(msg, k) for k in msg.required_fields]
    nonascii = any(isinstance(f, str) and not f.isascii() for f in fields)
    tag = cls + ('+nonascii-text' if nonascii else '')
    try:
        expected = rb.normalise({i: f for i, f in enumerate(fields)})
    except TypeError:
        rec.log('N1out.unnormalisable_fields')
        return
    try:
        got = rb.decode(raw, strict=True, int_keys=True)
    except rb.BencodeError as e:
        report(f'C17/N1out/ref-rejects/{tag}',
               f'the node sent a {cls} that the reference bencode decoder rejects ({e.reason}): {raw[:120].hex()}',
               {'sent': raw, 'fields': [repr(f)[:200] for f in fields], 'ref_error': str(e)})
        return
    if got != expected:
        report(f'C17/N1out/ref-differs/{tag}', f'the node sent a {cls} that the reference reads differently: {raw[:120].hex()}',
               {'sent': raw, 'ref': repr(got)[:600], 'expected': repr(expected)[:600]})
        return
    try:
        back = decode_datagram(raw)
        same = type(back) is type(msg) and all(
            rb.normalise(getattr(back, k)) == rb.normalise(getattr(msg, k)) for k in msg.required_fields)
    except Exception as e:  # noqa
        report(f'C17/N1out/decode-raises/{tag}', f'decode_datagram raised {type(e).__name__} on a {cls} sent by the node',
               {'sent': raw, 'exception': repr(e)[:200]})
        return
    if not same:
        report(f'C17/N1out/fields-differ/{tag}', f'{cls} sent by the node does not decode back to the same fields',
               {'sent': raw})


# ------------------------------------------------------------------------------ batches through one node
def run_batch(rec, case, gen):
    """gen(node, addr, nid) yields (data, origin, spec_or_None).  One fresh node per batch; at the end the
    maintenance task runs and routing table / data store are compared with the last judged state."""
    node = Node(case['node'])
    try:
        sender = case['sender']
        addr, nid = node.sender(sender)
        start = node.snapshot()
        clean = True
        n = 0
        for data, origin, spec in gen(node, addr, nid):
            if data is None:            # marker: let the maintenance task drain the pending sets before the next datagram
                node.settle()
                continue
            n += 1
            verdict_ok = feed(rec, node, data, sender, origin, spec)
            clean = clean and verdict_ok
            if n % 64 == 0 and rec.out_of_time():
                rec.note('batch_cut_on_budget', True)
                break
        # ---- "also after letting the maintenance task run"
        last = node.snap()
        pend_empty = not node.proto._to_add and not node.proto._to_remove
        node.settle()
        node.settle()
        end = node.snap()
        rec.hit('N3.maintenance_checked')
        if pend_empty:
            for comp in ('routing_table', 'data_store'):
                if end[comp] != last[comp]:
                    rec.violation(f'C17/N3/state-changed-after-maintenance/{comp}',
                                  f'{comp} differs after the maintenance task ran although the pending add/remove sets were '
                                  f'empty (batch {case.get("fam")})',
                                  {'before': _diffable(last[comp]), 'after': _diffable(end[comp])})
        else:
            rec.log('maintenance_compare_skipped_pending_sets_nonempty')
        if case.get('fam') in ('trunc', 'nest', 'huge', 'rand') and end['routing_table'] == start['routing_table'] \
                and end['data_store'] == start['data_store']:
            rec.hit('N3.batch_end_state_equals_start')
    finally:
        node.close()
    flush_pending(rec)


def run_single(rec, case):
    data = materialise(case['dg'])

    def gen(node, addr, nid):
        yield data, case.get('origin', 'single'), None
    node = Node(case['node'])
    try:
        feed(rec, node, data, case['sender'], case.get('origin', 'single'), single=True)
        node.settle()
    finally:
        node.close()


# ------------------------------------------------------------------------------ datagram generators
STRUCT_BYTES = sorted(set(b'ilde:-0123456789') | {0x00, 0xff, 0x20, 0x0a, 0x66, 0x6d})


def gen_trunc(case):
    def g(node, addr, nid):
        prim = templates(node, case['tseed'], addr, nid)[case['template']]
        full = rb.encode(prim, int_keys=True)
        for n in range(len(full)):
            yield full[:n], f'trunc:{case["template"]}', None
        yield full, f'trunc:{case["template"]}:full', None
    return g


def gen_mut1(case):
    def g(node, addr, nid):
        prim = templates(node, case['tseed'], addr, nid)[case['template']]
        full = rb.encode(prim, int_keys=True)
        lo, hi = case['lo'], min(case['hi'], len(full))
        for pos in range(lo, hi):
            orig = full[pos]
            if case['values'] == 'all':
                vals = [v for v in range(256) if v != orig]
            else:
                vals = sorted((set(STRUCT_BYTES) | {orig ^ (1 << b) for b in range(8)} | {(orig + 1) & 255, (orig - 1) & 255})
                              - {orig})
            for v in vals:
                yield full[:pos] + bytes([v]) + full[pos + 1:], f'mut1:{case["template"]}', None
    return g


def gen_mutn(case):
    def g(node, addr, nid):
        r = random.Random(case['seed'])
        tmpl = templates(node, case['tseed'], addr, nid)
        for _ in range(case['count']):
            name = r.choice(TEMPLATE_NAMES)
            b = bytearray(rb.encode(tmpl[name], int_keys=True))
            k = r.choice([2, 2, 3, 3, 'ins', 'del', 'dup', 'swap', 'splice'])
            if k in (2, 3):
                near = r.random() < 0.5
                p0 = r.randrange(len(b))
                for j in range(k):
                    p = min(len(b) - 1, p0 + j) if near else r.randrange(len(b))
                    b[p] = r.choice(STRUCT_BYTES) if r.random() < 0.6 else r.randrange(256)
            elif k == 'ins':
                p = r.randrange(len(b) + 1)
                b[p:p] = bytes(r.choice(STRUCT_BYTES) for _ in range(r.randrange(1, 4)))
            elif k == 'del':
                p = r.randrange(len(b))
                del b[p:p + r.randrange(1, 4)]
            elif k == 'dup':
                p = r.randrange(len(b))
                q = min(len(b), p + r.randrange(1, 40))
                b[q:q] = b[p:q]
            elif k == 'swap':
                p, q = r.randrange(len(b)), r.randrange(len(b))
                b[p], b[q] = b[q], b[p]
            else:
                other = rb.encode(tmpl[r.choice(TEMPLATE_NAMES)], int_keys=True)
                p, q = r.randrange(len(b)), r.randrange(len(other))
                b = bytearray(bytes(b[:p]) + other[q:])
            yield bytes(b), f'mutn:{k}:{name}', None
    return g


NEST_DEPTHS_QUICK = [1, 2, 3, 5, 8, 16, 50, 100, 300, 600, 900, 950, 990, 1000, 1010, 1100, 2000, 5000, 20000, 65000]


def nest_specs(depths):
    """every way of nesting: open only / closed, lists / dicts (with keys) / inside a valid request"""
    head = rb.encode({0: 0, 1: H('r', 1)[:20], 2: H('n', 1), 3: b'ping'}, int_keys=True)[:-1] + b'i4e'
    out = []
    for d in depths:
        out.append(({'rep': ['', b'l'.hex(), d, '']}, f'nest:l-open:{d}'))
        out.append(({'rep': ['', b'd'.hex(), d, '']}, f'nest:d-open:{d}'))
        out.append(({'rep': ['', b'd1:a'.hex(), d, '']}, f'nest:d1a-open:{d}'))
        out.append(({'rep': ['', b'di0e'.hex(), d, '']}, f'nest:di0e-open:{d}'))
        if d <= 32000:
            out.append(({'rep': [(b'l' * d).hex(), b'e'.hex(), d, '']}, f'nest:l-closed:{d}'))
            out.append(({'rep': [(b'd1:a' * d + b'i1e').hex(), b'e'.hex(), d, '']}, f'nest:d-closed:{d}'))
            out.append(({'rep': [(b'd1:a' * 1 + b'l' * d).hex(), b'e'.hex(), d + 1, '']}, f'nest:dict-of-lists:{d}'))
            out.append(({'rep': [(head + b'l' * d).hex(), b'e'.hex(), d + 1, '']}, f'nest:in-request-args:{d}'))
            out.append(({'rep': [(head + b'l' + b'd1:a' * d + b'i1e').hex(), b'e'.hex(), d + 2, '']},
                        f'nest:in-request-args-dicts:{d}'))
        out.append(({'rep': [head.hex(), b'l'.hex(), d, '']}, f'nest:in-request-args-open:{d}'))
    return out


def gen_nest(case):
    def g(node, addr, nid):
        for spec, origin in nest_specs(case['depths']):
            if len(materialise(spec)) > 65536:
                spec = dict(spec, cut=65536)
                origin += ':cut64k'
            yield materialise(spec), origin, spec
    return g


ALT_INTS = [0, 1, 2, 3, -1, 20, 48, 255, 3333, 65535, 65536, 2 ** 31, 2 ** 63, 2 ** 64, -2 ** 63, 10 ** 100]
ALT_BYTES = [b'', b'\x00', b'a' * 19, b'a' * 20, b'a' * 21, b'a' * 47, b'a' * 48, b'a' * 49, b'\xff' * 48, b'ping', b'store',
             b'findNode', b'findValue', b'pong', b'x' * 1024, 'é'.encode()]
ALT_LISTS = [[], [b'x'], [0] * 20, [0] * 48, [b'a'] * 48, [b'a' * 48], list(range(20)), [[[]]], [{}], [b'a' * 48, {b'p': 1}]]
ALT_DICTS = [{}, {b'a': 1}, {i: b'' for i in range(20)}, {i: 0 for i in range(48)}, {PV: 1}, {PV: 0}, {b'p': b'x'}, {b'p': -1},
             {b'p': 2 ** 70}, {b'token': b't' * 48, b'port': 3333, b'lbryid': b'i' * 48}]
ALTS = ALT_INTS + ALT_BYTES + ALT_LISTS + ALT_DICTS
ALT_METHODS = [b'', b'Ping', b'PING', b'ping ', b'ping\x00', b'pin', b'pingg', b'find_node', b'findnode', b'find_value', b'store\n',
               b'stor', b'__init__', b'refresh_token', b'make_token', b'node_rpc', b'%s%s%n', b'\xff\xfe', 'é'.encode(),
               'méthode-中文'.encode(), b'x' * 200, b'x' * 1000, b'x' * 1300, b'x' * 1500, b'x' * 5000, b'x' * 60000,
               # long valid multi-byte names: an error reply that quotes them must stay sendable AND decodable whichever way
               # it is shortened (by bytes: may split a character; by characters: may stay over the size limit) - seeded break C17-A
               ('a' + 'é' * 300).encode(), ('é' * 700).encode(), ('中' * 400).encode(), ('ab' + '中' * 200).encode(),
               ('😀' * 340).encode(), ('x' + '😀' * 130).encode(), ('😀' * 1000).encode(), ('é' * 255 + 'x' * 3).encode()]


def _paths(prim):
    """paths into a template primitive whose value is replaced/deleted"""
    out = [(k,) for k in prim]
    for k, v in prim.items():
        if isinstance(v, list):
            for i, e in enumerate(v[:6]):
                out.append((k, i))
                if isinstance(e, dict):
                    out.extend((k, i, kk) for kk in e)
                if isinstance(e, list):
                    out.extend((k, i, j) for j in range(len(e)))
        if isinstance(v, dict):
            for kk, e in v.items():
                out.append((k, kk))
                if isinstance(e, list) and e:
                    out.append((k, kk, 0))
    return out


def _copy(x):
    if isinstance(x, dict):
        return {k: _copy(v) for k, v in x.items()}
    if isinstance(x, list):
        return [_copy(v) for v in x]
    return x


def _set(prim, path, value, delete=False):
    p = _copy(prim)
    cur = p
    for k in path[:-1]:
        cur = cur[k]
    if delete:
        del cur[path[-1]]
    else:
        cur[path[-1]] = value
    return p


def gen_retype(case):
    def g(node, addr, nid):
        name = case['template']
        prim = templates(node, case['tseed'], addr, nid)[name]
        enc = lambda p: rb.encode(p, int_keys=True)  # noqa: E731
        for path in _paths(prim):
            ptxt = '.'.join(k.decode('latin1') if isinstance(k, bytes) and len(k) < 20 else ('<key>' if isinstance(k, bytes) else str(k))
                            for k in path)
            yield enc(_set(prim, path, None, delete=True)), f'retype:{name}:{ptxt}:deleted', None
            for alt in ALTS:
                try:
                    data = enc(_set(prim, path, alt))
                except TypeError:
                    continue
                yield data, f'retype:{name}:{ptxt}:{type(alt).__name__}', None
        mkey = 3 if 3 in prim else b'3'
        if prim.get(0, prim.get(b'0')) == 0:
            for m in ALT_METHODS:
                p = _set(prim, (mkey,), m)
                data = enc(p)
                spec = None
                if len(data) > 8192:
                    i = data.find(m)
                    spec = {'rep': [data[:i].hex(), b'x'.hex(), len(m), data[i + len(m):].hex()]}
                    assert materialise(spec) == data
                yield data, f'retype:{name}:method:{len(m)}-bytes', spec
            # every method with the argument list of every other template / of ALTS
            for m in METHODS:
                for a in ([], [{}], [{PV: 1}], [b'k' * 48], [b'k' * 48, {PV: 1}], [b'k' * 48, b't' * 48, 3333, nid, 0],
                          [b'k' * 48, b't' * 48, 3333], [b'k' * 48, b't' * 48, 3333, nid], [b'k' * 48, b't' * 48],
                          [b'k' * 48, {b'token': b't' * 48, b'port': 3333, b'lbryid': nid}],
                          [b'k' * 47, b't' * 48, 3333, nid, 0, {PV: 1}], [b'k' * 48, 7, 3333, nid, 0, {PV: 1}],
                          [b'k' * 48, b't' * 47, 3333, nid, 0, {PV: 1}], [b'k' * 48, [], 3333, nid, 0, {PV: 1}],
                          [b'k' * 48, b't' * 48, 0, nid, 0, {PV: 1}], [b'k' * 48, b't' * 48, 65535, nid, 0, {PV: 1}],
                          [b'k' * 48, b't' * 48, 65536, nid, 0, {PV: 1}], [b'k' * 48, b't' * 48, b'3333', nid, 0, {PV: 1}],
                          [b'k' * 48, b't' * 48, -1, nid, 0, {PV: 1}], [b'k' * 48, b't' * 48, 80, nid, 0, {PV: 1}],
                          [b'k' * 48, b'', 4000, nid, 0, {PV: 1}], [b'k' * 48, {b'a': 1}, 4001, nid, 0, {PV: 1}],
                          [b'k' * 48, 2 ** 70, 4002, nid, 0, {PV: 1}],
                          [[b'k'] * 48, {PV: 1}], [b'k' * 48, {b'p': b'1', PV: 1}], [b'k' * 48, {b'p': [], PV: 1}],
                          [b'k' * 48, {b'p': -3, PV: 1}], [b'k' * 48, {b'p': 10 ** 30, PV: 1}], [7, {PV: 1}], [{b'a': 1}, {PV: 1}],
                          [b'k' * 49, {PV: 1}], [b'', {PV: 1}]):
                    yield enc(_set(_set(prim, (mkey,), m), (4 if 4 in prim else b'4',), a)), f'retype:{name}:{m.decode()}-args', None
        # key-type / order / duplicate variations built WITHOUT sorting
        items = list(prim.items())
        yield rb.encode_raw_items(list(reversed(items))), f'retype:{name}:keys-reversed', None
        yield rb.encode_raw_items(items + [items[0]]), f'retype:{name}:key-0-duplicated', None
        yield rb.encode_raw_items(items + [(0 if isinstance(items[0][0], int) else b'0', 7)]), f'retype:{name}:key-0-overridden', None
        yield rb.encode_raw_items(items + [(5, b'extra')]), f'retype:{name}:extra-key-5', None
        yield rb.encode_raw_items(items + [(100, b'extra')]), f'retype:{name}:extra-key-100', None
        yield rb.encode_raw_items([((str(k).encode() if isinstance(k, int) and i % 2 else k), v)
                                   for i, (k, v) in enumerate(items)]), f'retype:{name}:mixed-key-kinds', None
        yield enc(prim) + b'e', f'retype:{name}:trailing-e', None
        yield enc(prim) + b'\x00' * 7, f'retype:{name}:trailing-nuls', None
        yield enc(prim) * 2, f'retype:{name}:doubled', None
    return g


def gen_huge(case):
    def g(node, addr, nid):
        r = random.Random(case['seed'])
        tm = templates(node, case['tseed'], addr, nid)
        ping = rb.encode(tm['ping'], int_keys=True)
        head = ping[:ping.index(b'i3e')]
        for nd in ((1, 20, 4300, 4301, 65000) if case.get('small') else
                   (1, 18, 19, 20, 100, 308, 309, 1000, 4299, 4300, 4301, 5000, 20000, 65000)):
            for pre, suf, what in ((b'i', b'e', 'int'), (b'i-', b'e', 'negint'), (b'', b':', 'len'), (b'l', b':xe', 'len-in-list'),
                                   (head + b'i3e', b':pinge', 'len-in-datagram'), (head + b'i3ei', b'ee', 'int-in-datagram'),
                                   (b'di', b'ei0ee', 'int-key'), (b'd', b':a', 'len-key')):
                spec = {'rep': [pre.hex(), b'9'.hex(), nd, suf.hex()]}
                yield materialise(spec), f'huge:{what}:{nd}-digits', spec
        for s in (b'-1:a', b'-0:', b'+1:a', b' 1:a', b'1 :a', b'0x1:a', b'1_0:aaaaaaaaaa', b'i e', b'i-e', b'i--1e', b'i+1e', b'i 1e',
                  b'i1 e', b'i0x10e', b'i1_0e', b'i1.5e', b'i1e5e', b'iinfe', b'inane', b'i\xd9\xa1e', b'd-1:ai1ee', b'd01:ai1ee',
                  b'di-0ei1ee', b'i00e', b'i-00e', b'00:', b'1:', b'2:a', b'99999999999999999999:', b'd1:a99999999999:xe',
                  b'l99999999999999:e', b'd' + b'0:' * 1000 + b'e', b'l' + b'0:' * 30000 + b'e', b'l' + b'i0e' * 20000 + b'e',
                  b'd' + b''.join(b'%d:%s0:' % (len(str(i)), str(i).encode()) for i in range(3000)) + b'e'):
            yield s, 'huge:numeric-forms', None
            yield head + b'i3e4:pingi4el' + s + b'ee', 'huge:numeric-forms-in-args', None
        big = r.randbytes(60000)
        for k in (3, 4):
            p = _copy(tm['ping'])
            p[k] = big if k == 3 else [big, {PV: 1}]
            d = rb.encode(p, int_keys=True)
            yield d, f'huge:60000-byte-field-{k}', None
    return g


def gen_rand(case):
    def g(node, addr, nid):
        r = random.Random(case['seed'])
        for _ in range(case['count']):
            alpha = r.choice(['any', 'any', 'benc', 'benc', 'dgprefix', 'struct'])
            ln = r.choice([r.randrange(0, 8), r.randrange(0, 64), r.randrange(0, 300), r.randrange(0, 1500),
                           r.randrange(0, case['maxlen'] + 1), r.choice([1399, 1400, 1401, 65507, 65535, 65536])])
            ln = min(ln, case['maxlen'])
            if alpha == 'struct':
                data = rb.encode(rand_prim(r, 0, top=True), int_keys=True)
                spec = None
            else:
                spec = {'rand': [r.getrandbits(48), ln, alpha]}
                data = materialise(spec)
            yield data, f'rand:{alpha}', spec
    return g


def rand_prim(r, depth, top=False):
    """random structure that LOOKS like a datagram (dict with keys 0..4) with random typed values"""
    def leaf():
        k = r.randrange(6)
        if k == 0:
            return r.choice(ALT_INTS)
        if k == 1:
            return r.randbytes(r.choice([0, 1, 4, 20, 48, 54]))
        if k == 2:
            return r.choice(list(METHODS) + [b'pong', b'OK', b'token', b'contacts', b'p', PV])
        if k == 3 and depth < 4:
            return [rand_prim(r, depth + 1) for _ in range(r.randrange(0, 5))]
        if k == 4 and depth < 4:
            return {r.choice([b'p', PV, b'token', b'contacts', r.randbytes(r.choice([1, 48]))]): rand_prim(r, depth + 1)
                    for _ in range(r.randrange(0, 4))}
        return r.randrange(-5, 70000)
    if not top:
        return leaf()
    d = {}
    for k in range(5):
        if r.random() < 0.9:
            d[k] = [r.choice([0, 0, 1, 2, 3, -1]), r.randbytes(r.choice([20, 20, 20, 19, 0])), r.randbytes(r.choice([48, 48, 48, 47])),
                    r.choice(list(METHODS) + [b'pong', b'nope']), [rand_prim(r, 1) for _ in range(r.randrange(0, 6))]][k] \
                if r.random() < 0.8 else leaf()
    if r.random() < 0.1:
        d[r.choice([5, 100, 101, -1, 2 ** 40])] = leaf()
    return d


def gen_valid(case):
    """well-formed traffic (N4: must not raise; effects logged only) + the arguable forms"""
    def g(node, addr, nid):
        r = random.Random(case['seed'])
        enc = lambda p: rb.encode(p, int_keys=True)  # noqa: E731
        for j in range(case['count']):
            tm = templates(node, r.getrandbits(32), addr, nid)
            name = r.choice(TEMPLATE_NAMES)
            p = _copy(tm[name])
            if name == 'store':
                k = r.randrange(6)
                if k == 0:
                    p[4][1] = r.randbytes(48)                       # wrong-valued token
                elif k == 1:
                    p[4][2] = r.choice([1, 80, 1023, 1024, 65534, 65535])
                elif k == 2:
                    p[4][0] = node.blobs[r.randrange(len(node.blobs))]
                elif k == 3:
                    p[4] = p[4][:r.choice([3, 4])] + [{PV: 1}]
                elif k == 4:
                    p[4] = p[4][:5]                                  # no protocolVersion dictionary
            elif name.startswith('findValue'):
                p[4][0] = r.choice(node.blobs + [r.randbytes(48)])
                p[4][1][b'p'] = r.choice([0, 0, 1, 2, 3, 100, 2 ** 40, -1])
            elif name == 'findNode' and r.random() < 0.3:
                p[4][0] = node.node_id
            if r.random() < 0.05 and 2 in p:
                p[2] = node.node_id                                  # claims to be us
            yield enc(p), f'valid:{name}', None
    return g


def run_replies(rec, case):
    """datagrams that answer a PENDING request (right / wrong address, valid / mutated); the loop runs between
    datagrams as it would in a real node.  N4/N3 through the same monitor."""
    from lbry.dht.serialization.datagram import RequestDatagram
    from lbry.dht.error import RemoteException
    node = Node(case['node'])
    r = random.Random(case['seed'])
    try:
        async def scenario():
            for j in range(case['count']):
                c = node.contacts[r.randrange(len(node.contacts))]
                peer = node.mk(c.node_id, c.address, c.udp_port)
                kind = r.choice(['ping', 'findNode', 'findValue'])
                req = {'ping': lambda: RequestDatagram.make_ping(node.node_id),
                       'findNode': lambda: RequestDatagram.make_find_node(node.node_id, r.randbytes(48)),
                       'findValue': lambda: RequestDatagram.make_find_value(node.node_id, r.randbytes(48))}[kind]()
                task = node.loop.create_task(node.proto.send_request(peer, req))
                await asyncio.sleep(0)
                del node.out[:]
                del node.transport.sent[:]
                tm = templates(node, r.getrandbits(32), (c.address, c.udp_port), c.node_id)
                name = r.choice(['resp-pong', 'resp-contacts8', 'resp-findvalue', 'error-ascii', 'error-nonascii', 'resp-contacts0'])
                p = _copy(tm[name])
                p[1] = req.rpc_id
                how = r.choice(['ok', 'ok', 'wrong-address', 'our-node-id', 'mutated', 'truncated', 'retyped-node-id',
                                'retyped-payload', 'old-protocol-error', 'twice'])
                sender = {'kind': 'contact', 'i': node.contacts.index(c)}
                if how == 'wrong-address':
                    sender = {'kind': 'fresh', 'i': j}
                if how == 'our-node-id':
                    p[2] = node.node_id
                if how == 'retyped-node-id':
                    p[2] = r.choice([[0] * 48, [b'a'] * 48, {i: 0 for i in range(48)}, 48, b'a' * 47])
                if how == 'retyped-payload':
                    p[3] = r.choice(ALTS)
                if how == 'old-protocol-error' and p[0] == 2:
                    p[4] = b'findNode() takes exactly 2 arguments (5 given)'
                data = rb.encode(p, int_keys=True)
                if how == 'mutated':
                    b = bytearray(data)
                    b[r.randrange(len(b))] = r.choice(STRUCT_BYTES)
                    data = bytes(b)
                if how == 'truncated':
                    data = data[:r.randrange(len(data))]
                node._snap = None
                feed(rec, node, data, sender, f'replies:{how}:{name}')
                await asyncio.sleep(0)
                if how == 'twice':
                    node._snap = None
                    feed(rec, node, data, sender, f'replies:second-copy:{name}')
                    await asyncio.sleep(0)
                node.vt[0] += 6.0           # let an unanswered request time out
                for _ in range(4):
                    await asyncio.sleep(0)
                if not task.done():
                    task.cancel()
                try:
                    await task
                    rec.hit('replies.request_completed')
                except (asyncio.TimeoutError, RemoteException, asyncio.CancelledError):
                    rec.hit('replies.request_failed')
                del node.out[:]
                del node.transport.sent[:]
                node._snap = None
                if rec.out_of_time():
                    break
        node.loop.run_until_complete(scenario())
    finally:
        node.close()
    flush_pending(rec)


# ------------------------------------------------------------------------------ N1: messages
def text_of(r):
    k = r.randrange(10)
    if k == 0:
        return ''
    if k == 1:
        return ''.join(r.choice('abcdefghijklmnopqrstuvwxyz ()<>\':,.') for _ in range(r.randrange(1, 60)))
    if k == 2:
        return 'Invalid token'
    if k == 3:
        return 'café'
    if k == 4:
        return ''.join(chr(r.choice([r.randrange(0x20, 0x7f), r.randrange(0xa0, 0x250), r.randrange(0x400, 0x500),
                                     r.randrange(0x4e00, 0x4f00), r.randrange(0x1f600, 0x1f650)])) for _ in range(r.randrange(1, 40)))
    if k == 5:
        return '\x00\x01\n\r\t\x7f' + chr(r.randrange(0x80, 0xa0))
    if k == 6:
        return 'x' * r.choice([255, 256, 1000, 1400])
    if k == 7:
        return 'é' * r.choice([1, 9, 10, 99, 100])
    if k == 8:
        return ''.join(chr(r.randrange(1, 0xd800)) for _ in range(r.randrange(1, 30)))
    return "findNode() takes exactly 2 arguments (5 given)"


def gen_message(r):
    """-> (shape, builder(real classes) , expected primitive {0:..})"""
    nid, rpc = r.randbytes(48), r.randbytes(20)
    k = r.randrange(12)
    if k == 0:
        return 'ping', ('make_ping', (nid, rpc)), {0: 0, 1: rpc, 2: nid, 3: b'ping', 4: [{PV: 1}]}
    if k == 1:
        bh, tok = r.randbytes(48), r.randbytes(48)
        port = r.choice([1, 80, 1023, 1024, 3333, 65534, 65535, r.randrange(1, 65536)])
        return 'store', ('make_store', (nid, bh, tok, port, rpc)), {0: 0, 1: rpc, 2: nid, 3: b'store', 4: [bh, tok, port, nid, 0, {PV: 1}]}
    if k == 2:
        key = r.randbytes(48)
        return 'findNode', ('make_find_node', (nid, key, rpc)), {0: 0, 1: rpc, 2: nid, 3: b'findNode', 4: [key, {PV: 1}]}
    if k == 3:
        key = r.randbytes(48)
        page = r.choice([0, 0, 1, 2, 7, 255, 256, 2 ** 31, 2 ** 63, 2 ** 64, 10 ** 40, r.randrange(0, 10 ** 6)])
        return 'findValue', ('make_find_value', (nid, key, rpc, page)), {0: 0, 1: rpc, 2: nid, 3: b'findValue',
                                                                       4: [key, {b'p': page, PV: 1}]}
    if k == 4:
        v = r.choice([b'pong', b'OK'])
        return 'resp-' + v.decode(), ('response', (rpc, nid, v)), {0: 1, 1: rpc, 2: nid, 3: v}
    if k in (5, 6):
        n = r.choice([0, 1, 2, 7, 8, 9, 15, 16, r.randrange(0, 17)])
        tr = contact_triples(r, n)
        resp = [(a, b.decode(), c) for a, b, c in tr]        # as KademliaRPC.find_node returns them
        return 'resp-contacts', ('response', (rpc, nid, resp)), {0: 1, 1: rpc, 2: nid, 3: tr}
    if k in (7, 8):
        key = r.randbytes(48)
        if r.random() < 0.4:    # first byte in every ordering class relative to b'contacts', b'p', b'protocolVersion', b'token'
            key = bytes([r.choice([0, 0x1f, 0x27, 0x5b, 0x5c, 0x62, 0x63, 0x64, 0x6f, 0x70, 0x71, 0x73, 0x74, 0x75, 0x7f, 0x80, 0xff])]) \
                + key[1:]
        resp = {b'token': r.randbytes(48)}
        exp = dict(resp)
        if r.random() < 0.8:
            tr = contact_triples(r, r.randrange(0, 9))
            resp[b'contacts'] = [(a, b.decode(), c) for a, b, c in tr]
            exp[b'contacts'] = tr
        if r.random() < 0.8:
            resp[PV] = exp[PV] = 1
        resp[b'p'] = exp[b'p'] = r.choice([0, 1, 2, 3, 12])
        if r.random() < 0.8:
            peers = [compact(r) for _ in range(r.randrange(0, 9))]
            resp[key] = [bytearray(x) for x in peers]           # compact_address_tcp() returns bytearray
            exp[key] = peers
        return 'resp-findvalue', ('response', (rpc, nid, resp)), {0: 1, 1: rpc, 2: nid, 3: exp}
    et = r.choice(["<class 'ValueError'>", "<class 'AttributeError'>", 'FakeErrorType', text_of(r)])
    tx = text_of(r)
    shape = 'error-ascii' if (et.isascii() and tx.isascii()) else 'error-nonascii'
    return shape, ('error', (rpc, nid, et.encode('utf-8'), tx.encode('utf-8'))), {0: 2, 1: rpc, 2: nid, 3: et.encode('utf-8'),
                                                                                 4: tx.encode('utf-8')}


def check_message(rec, shape, build, expected):
    from lbry.dht.serialization import datagram as D
    kind, a = build
    rec.case(repr(expected),
             sample={'shape': shape, 'expected_primitive': repr(expected)[:300]} if rec.evaluations % 501 == 0 else None)
    rec.hit('N1.msg_checked')
    rec.hit('N1.shape.' + shape)
    wit = {'shape': shape, 'constructor': kind, 'args': [x if isinstance(x, (int, bytes)) else repr(x)[:400] for x in a]}
    try:
        if kind == 'response':
            m = D.ResponseDatagram(D.RESPONSE_TYPE, a[0], a[1], a[2])
        elif kind == 'error':
            m = D.ErrorDatagram(D.ERROR_TYPE, a[0], a[1], a[2], a[3])
        else:
            m = getattr(D.RequestDatagram, kind)(*a)
        raw = m.bencode()
    except Exception as e:  # noqa
        rec.violation(f'C17/N1/encode-raises/{shape}', f'{kind}{tuple(wit["args"])!r:.300} raised {type(e).__name__}: {e}', wit)
        return
    wit['encoded'] = raw
    # -- "an independent bencode implementation reads identically" (strict: length prefixes are byte counts, keys sorted)
    try:
        ref = rb.decode(raw, strict=True, int_keys=True)
    except rb.BencodeError as e:
        wit['ref_error'] = str(e)
        rec.violation(f'C17/N1/ref-rejects/{shape}', f'reference decoder rejects the encoding of a {shape} message ({e.reason}): '
                                                     f'{raw[:160].hex()}', wit)
        return
    if ref != expected:
        wit['ref'] = repr(ref)[:800]
        wit['expected'] = repr(expected)[:800]
        rec.violation(f'C17/N1/ref-differs/{shape}', f'reference decoder reads a {shape} message differently from what was built: '
                                                     f'{raw[:160].hex()}', wit)
        return
    rec.hit('N1.ref_reads_identically')
    # -- "decodes back to the same message"
    try:
        back = D.decode_datagram(raw)
    except Exception as e:  # noqa
        rec.violation(f'C17/N1/decode-raises/{shape}', f'decode_datagram raised {type(e).__name__} on the encoding of a {shape} message',
                      wit)
        return
    if type(back) is not type(m):
        rec.violation(f'C17/N1/decoded-type-differs/{shape}', f'{type(m).__name__} decoded as {type(back).__name__}', wit)
        return
    for i, f in enumerate(m.required_fields):
        got, want = getattr(back, f), getattr(m, f)
        if isinstance(want, str) and got != want or rb.normalise(got) != rb.normalise(want) or rb.normalise(got) != expected[i]:
            wit.update({'field': f, 'decoded': repr(got)[:600], 'original': repr(want)[:600]})
            rec.violation(f'C17/N1/field-differs/{shape}:{f}', f'field {f} of a {shape} message does not survive encode/decode', wit)
            return
    rec.hit('N1.fields_reproduced')
    # the real decoder must read the reference's (byte-identical) canonical encoding the same way
    if rb.encode(expected, int_keys=True) != raw:
        raise RuntimeError('harness: strict reference decode succeeded but canonical re-encoding differs')


# ------------------------------------------------------------------------------ N2: compact addresses
def check_addr(rec, node_id, ip, port):
    from lbry.dht.serialization.datagram import make_compact_address, decode_compact_address
    want = socket.inet_aton(ip) + struct.pack('>H', port) + node_id
    rec.case(want)
    try:
        got = make_compact_address(node_id, ip, port)
        back = decode_compact_address(bytes(got))
        back2 = decode_compact_address(got)
    except Exception as e:  # noqa
        rec.violation(f'C17/N2/raises/{type(e).__name__}', f'compact address of {ip}:{port} raised {e!r}',
                      {'ip': ip, 'port': port, 'node_id': node_id})
        return
    rec.hit('N2.roundtrip_checked')
    if bytes(got) != want:
        rec.violation('C17/N2/encoding-differs', f'make_compact_address({ip}:{port}) = {bytes(got)[:6].hex()}.., expected {want[:6].hex()}..',
                      {'ip': ip, 'port': port, 'node_id': node_id, 'got': bytes(got)})
    elif tuple(back) != (node_id, ip, port) or tuple(back2) != (node_id, ip, port):
        rec.violation('C17/N2/roundtrip', f'decode(make({ip}:{port})) = {back[1]}:{back[2]}', {'ip': ip, 'port': port, 'node_id': node_id,
                                                                                               'back': list(back)})


def check_addr_reverse(rec, blob):
    from lbry.dht.serialization.datagram import make_compact_address, decode_compact_address
    port = int.from_bytes(blob[4:6], 'big')
    rec.case(b'rev' + blob)
    try:
        nid, ip, p = decode_compact_address(blob)
    except ValueError:
        if port == 0 or len(blob) != 54:
            rec.hit('N2.reverse_refused_invalid')
        else:
            rec.violation('C17/N2/decode-refuses-valid', f'decode_compact_address refused {blob[:6].hex()}..', {'blob': blob})
        return
    except Exception as e:  # noqa
        if port == 0 or len(blob) != 54:
            rec.log(f'N2.decode_of_invalid_compact_address_raises_{type(e).__name__}')     # totality not in the statement
        else:
            rec.violation(f'C17/N2/raises/{type(e).__name__}', f'decode_compact_address({blob[:8].hex()}..) raised {e!r}', {'blob': blob})
        return
    rec.hit('N2.reverse_checked')
    if len(blob) != 54:
        # the decoder accepted bytes that no compact address encodes to.  Round trip in the decode -> make direction: whatever is accepted
        # must come back as the same bytes, otherwise two different byte strings stand for one peer (lossy; seeded break C17-K dropped
        # everything after byte 54).  The unchanged tree accepts nothing of another length, so this was a logged-only line before
        try:
            again = bytes(make_compact_address(nid, ip, p))
        except Exception as e:  # noqa
            again = repr(e)
        if again != blob:
            rec.violation('C17/N2/decode-accepts-bytes-that-do-not-reencode/' + ('longer' if len(blob) > 54 else 'shorter'),
                          f'decode_compact_address accepted {len(blob)} bytes; make(decode(x)) gives {len(again) if isinstance(again, bytes) else again} bytes',
                          {'blob': blob, 'decoded': [nid, ip, p]})
        return
    if port == 0:
        rec.log('N2.decode_accepts_invalid_compact_address')
        return
    if ip != socket.inet_ntoa(blob[:4]) or p != port or nid != blob[6:] or bytes(make_compact_address(nid, ip, p)) != blob:
        rec.violation('C17/N2/reverse-roundtrip', f'make(decode({blob[:6].hex()}..)) differs', {'blob': blob, 'decoded': [nid, ip, p]})


# ------------------------------------------------------------------------------ logged-only: generic primitives
def check_prim(rec, r):
    from lbry.dht.serialization.bencoding import bencode, bdecode
    p = {r.randbytes(r.choice([1, 2, 5, 48])): rand_prim(r, 1) for _ in range(r.randrange(0, 5))}
    rec.case(repr(p), nontrivial=False)
    rec.hit('prim.checked')
    try:
        raw = bencode(p)
    except Exception as e:  # noqa
        rec.log('prim.real_encode_raises:' + type(e).__name__)
        return
    if raw != rb.encode(p):
        rec.log('prim.real_encoding_not_canonical')
    try:
        back = bdecode(raw)
    except Exception as e:  # noqa
        rec.log('prim.real_decode_raises:' + type(e).__name__)
        return
    if back != rb.normalise(p):
        rec.log('prim.real_decode_differs(value-after-nested-dict-dropped)' if _has_item_after_dict(p) else 'prim.real_decode_differs')
    else:
        rec.hit('prim.roundtrip_ok')


def _has_item_after_dict(p):
    st = [p]
    while st:
        x = st.pop()
        if isinstance(x, dict):
            vals = [x[k] for k in sorted(x)]
        elif isinstance(x, list):
            vals = x
        else:
            continue
        for i, v in enumerate(vals):
            if isinstance(v, dict) and (i + 1 < len(vals) or x is not p):
                return True
            st.append(v)
    return False


# ------------------------------------------------------------------------------ case generation
def gen_cases(rng, tier, shard, nshards):
    quick = tier == 'quick'
    idx = 0

    def mine():
        nonlocal idx
        idx += 1
        return (idx - 1) % nshards == shard

    senders = [{'kind': 'fresh', 'i': 1}, {'kind': 'contact', 'i': 3}, {'kind': 'spoof', 'i': 5}]
    modes = ['live', 'grace']
    # -- a small round of every seeded family first, so that every monitor is reached even if a loaded machine
    #    makes the budget cut the run short
    if shard == 0:
        yield {'fam': 'fixed'}
    sm = random.Random(rng.getrandbits(48))
    yield {'fam': 'msg', 'seed': sm.getrandbits(48), 'count': 150}
    yield {'fam': 'addr', 'mode': 'rand', 'seed': sm.getrandbits(48), 'count': 300}
    yield {'fam': 'valid', 'node': {'seed': 0, 'tokens': modes[shard % 2]}, 'seed': sm.getrandbits(48), 'count': 80,
           'sender': senders[shard % 3]}
    yield {'fam': 'replies', 'node': {'seed': 1, 'tokens': modes[shard % 2]}, 'seed': sm.getrandbits(48), 'count': 12}
    yield {'fam': 'mutn', 'node': {'seed': 2, 'tokens': modes[(shard + 1) % 2]}, 'tseed': sm.getrandbits(30), 'seed': sm.getrandbits(48),
           'count': 100, 'sender': senders[(shard + 1) % 3]}
    yield {'fam': 'rand', 'node': {'seed': 0, 'tokens': modes[shard % 2]}, 'seed': sm.getrandbits(48), 'count': 40, 'maxlen': 65536,
           'sender': senders[(shard + 2) % 3]}
    yield {'fam': 'retype', 'node': {'seed': 0, 'tokens': 'live'}, 'tseed': sm.getrandbits(30), 'template': 'store',
           'sender': senders[shard % 3]}
    yield {'fam': 'nest', 'node': {'seed': 2, 'tokens': modes[shard % 2]}, 'sender': senders[shard % 3], 'depths': [1 + shard, 1200 + shard]}
    yield {'fam': 'huge', 'node': {'seed': 1, 'tokens': modes[shard % 2]}, 'tseed': 300 + shard, 'seed': shard, 'sender': senders[shard % 3],
           'small': True}
    yield {'fam': 'trunc', 'node': {'seed': 0, 'tokens': modes[shard % 2]}, 'tseed': 900 + shard, 'template': TEMPLATE_NAMES[shard % 15],
           'sender': senders[(shard + 1) % 3]}
    yield {'fam': 'mut1', 'node': {'seed': 0, 'tokens': modes[shard % 2]}, 'tseed': 900 + shard, 'template': TEMPLATE_NAMES[shard % 15],
           'sender': senders[(shard + 2) % 3], 'lo': 40 + shard, 'hi': 44 + shard, 'values': 'quick'}
    # -- deterministic families, spread round-robin over the shards
    for ti, name in enumerate(TEMPLATE_NAMES):
        for si, s in enumerate(senders if not quick else senders[:1] + [senders[1 + ti % 2]]):
            if mine():
                yield {'fam': 'trunc', 'node': {'seed': ti % 3, 'tokens': modes[(ti + si) % 2]}, 'tseed': 100 + ti, 'template': name,
                       'sender': s}
    for ti, name in enumerate(TEMPLATE_NAMES):
        for si, s in enumerate(senders):
            for mode in (modes if (not quick or name in REQUEST_TEMPLATES) else modes[:1]):
                if quick and si and name not in REQUEST_TEMPLATES:
                    continue
                if mine():
                    yield {'fam': 'retype', 'node': {'seed': 1 + ti % 2, 'tokens': mode}, 'tseed': 200 + ti, 'template': name, 'sender': s}
    depths = NEST_DEPTHS_QUICK if quick else sorted(set(NEST_DEPTHS_QUICK) | set(range(1, 65)) | set(range(900, 1100, 7)) |
                                                    {3000, 10000, 30000, 32000, 40000, 50000, 64000, 65536})
    for i in range(0, len(depths), 4):
        if mine():
            yield {'fam': 'nest', 'node': {'seed': 2, 'tokens': modes[i % 2]}, 'sender': senders[(i // 4) % 3], 'depths': depths[i:i + 4]}
    for i in range(2 if quick else 6):
        if mine():
            yield {'fam': 'huge', 'node': {'seed': i % 3, 'tokens': modes[i % 2]}, 'tseed': 300 + i, 'seed': 7 + i, 'sender': senders[i % 3]}
    # every byte position of every template
    step = 24 if quick else 12
    for ti, name in enumerate(TEMPLATE_NAMES):
        ln = len(rb.encode(templates(None, 400 + ti, ('1.2.3.4', 1), b'n' * 48)[name], int_keys=True))
        for lo in range(0, ln, step):
            if mine():
                yield {'fam': 'mut1', 'node': {'seed': ti % 3, 'tokens': modes[(lo // step) % 2]}, 'tseed': 400 + ti, 'template': name,
                       'sender': senders[(lo // step + ti) % 3], 'lo': lo, 'hi': lo + step, 'values': 'quick' if quick else 'all'}
    for i in range(6 if quick else 60):
        if mine():
            yield {'fam': 'addr', 'mode': 'ports', 'ip': ['1.2.3.4', '255.255.255.255', '0.0.0.0', '127.0.0.1', '10.0.0.1',
                                                          '192.168.100.200'][i % 6],
                   'lo': 1 + (i * 10923) % 65535, 'count': 65535 if not quick else 10923}
    # -- seeded random families, per shard
    for j in range(2 if quick else 48):
        yield {'fam': 'msg', 'seed': rng.getrandbits(48), 'count': 400}
        yield {'fam': 'mutn', 'node': {'seed': rng.randrange(3), 'tokens': rng.choice(modes)}, 'tseed': rng.getrandbits(30),
               'seed': rng.getrandbits(48), 'count': 700 if quick else 1500, 'sender': rng.choice(senders)}
        yield {'fam': 'rand', 'node': {'seed': rng.randrange(3), 'tokens': rng.choice(modes)}, 'seed': rng.getrandbits(48),
               'count': 200 if quick else 500, 'maxlen': 65536, 'sender': rng.choice(senders)}
        yield {'fam': 'valid', 'node': {'seed': rng.randrange(3), 'tokens': rng.choice(modes)}, 'seed': rng.getrandbits(48),
               'count': 400, 'sender': rng.choice(senders + [{'kind': 'fresh', 'i': rng.randrange(1000)},
                                                             {'kind': 'contact', 'i': rng.randrange(36)}])}
        yield {'fam': 'replies', 'node': {'seed': rng.randrange(3), 'tokens': rng.choice(modes)}, 'seed': rng.getrandbits(48), 'count': 60}
        yield {'fam': 'addr', 'mode': 'rand', 'seed': rng.getrandbits(48), 'count': 3000}
        yield {'fam': 'prim', 'seed': rng.getrandbits(48), 'count': 300}
        if j % 2 == 0:
            yield {'fam': 'valid', 'node': {'seed': 0, 'tokens': rng.choice(modes)}, 'seed': rng.getrandbits(48), 'count': 60,
                   'sender': {'kind': rng.choice(['badaddr', 'lowport']), 'i': rng.randrange(12)}}
            yield {'fam': 'retype', 'node': {'seed': 0, 'tokens': 'live'}, 'tseed': rng.getrandbits(30),
                   'template': rng.choice(REQUEST_TEMPLATES), 'sender': {'kind': rng.choice(['badaddr', 'lowport']), 'i': rng.randrange(12)}}


FIXED = [b'', b'd', b'l', b'l-3:', b'd-3:', b'de', b'le', b'i', b'e', b'i0e', b'0:', b'dde', b'lle', b'd0:e', b'd0:0:e', b'di0ee', b'di0ei0ee',
         b'di0ei1ee', b'di0ei2ee', b'di0ei3ee', b'di0ei0ei1e0:e', b'd1:0i0ee', b'\x00', b'\xff' * 100, b'l' * 5000, b'd' * 5000]


# ------------------------------------------------------------------------------ execute
def execute(rec, case):
    boot.import_lbry()
    if not _REF_OK[0]:
        rb.self_check()
        _REF_OK[0] = True
    fam = case['fam']
    if fam == 'single':
        run_single(rec, case)
    elif fam == 'fixed':
        # canonical minimal witnesses first (shard 0 runs this before anything else)
        for mode in ('grace', 'live'):
            def g(node, addr, nid):
                for d in FIXED:
                    yield d, 'fixed', (None if len(d) < 4096 else {'rep': ['', d[:1].hex(), len(d), '']})
                yield rb.encode({0: 2, 1: b'r' * 20, 2: nid, 3: 1, 4: 2}, int_keys=True), 'fixed:error-with-integer-fields', None
            run_batch(rec, {'fam': 'fixed', 'node': {'seed': 0, 'tokens': mode}, 'sender': {'kind': 'fresh', 'i': 0}}, g)
        for skind in ('contact', 'fresh', 'spoof'):
            def g2(node, addr, nid):
                enc = lambda p: rb.encode(p, int_keys=True)  # noqa: E731
                R = b'r' * 20
                ping = enc({0: 0, 1: R, 2: nid, 3: b'ping', 4: [{PV: 1}]})
                store = enc({0: 0, 1: R, 2: nid, 3: b'store', 4: [b'h' * 48, node.valid_token(addr[0]), 4000, nid, 0, {PV: 1}]})
                yield enc({0: 0, 1: [0] * 20, 2: nid, 3: b'ping', 4: [{PV: 1}]}), 'fixed:ping-rpc-id-is-a-list', None
                yield None, 'settle', None
                yield enc({0: 0, 1: R, 2: nid, 3: b'store', 4: [b'h' * 48, 7, 4000, nid, 0, {PV: 1}]}), 'fixed:store-integer-token', None
                yield enc({0: 0, 1: R, 2: nid, 3: b'store', 4: [b'h' * 48, b't' * 47, 4001, nid, 0, {PV: 1}]}), 'fixed:store-47-byte-token', None
                yield enc({0: 0, 1: R, 2: nid, 3: b'nope', 4: [{PV: 1}]}), 'fixed:unknown-method', None
                yield None, 'settle', None
                yield ping[:-1], 'fixed:ping-without-last-byte', None
                yield None, 'settle', None
                yield ping[:-1] + b'\x00garbage', 'fixed:ping-with-garbage-tail', None
                yield store[:-1], 'fixed:store-without-last-byte', None
                yield enc({0: 0, 1: [0] * 20, 2: nid, 3: b'store', 4: [b'g' * 48, node.valid_token(addr[0]), 4002, nid, 0, {PV: 1}]}), \
                    'fixed:store-rpc-id-is-a-list', None
                yield enc({0: 0, 1: R, 2: nid, 3: 'é'.encode(), 4: [{PV: 1}]}), 'fixed:unknown-method-non-ascii', None
                yield enc({0: 0, 1: R, 2: nid, 3: b'x' * 1400, 4: [{PV: 1}]}), 'fixed:unknown-method-1400-bytes', None
                for label, meth in (('300-two-byte-chars', ('a' + 'é' * 300).encode()), ('340-four-byte-chars', ('😀' * 340).encode()),
                                    ('400-three-byte-chars', ('中' * 400).encode()), ('130-four-byte-chars-odd-offset', ('x' + '😀' * 130).encode())):
                    yield enc({0: 0, 1: R, 2: nid, 3: meth, 4: [{PV: 1}]}), 'fixed:unknown-method-' + label, None
                yield enc({0: 0, 1: R, 2: [0] * 48, 3: b'ping', 4: [{PV: 1}]}), 'fixed:node-id-list-of-ints', None
                yield enc({0: 0, 1: R, 2: [b'a'] * 48, 3: b'ping', 4: [{PV: 1}]}), 'fixed:node-id-list-of-strings', None
                yield enc({0: 1, 1: [0] * 20, 2: nid, 3: b'pong'}), 'fixed:response-rpc-id-is-a-list', None
                yield enc({0: 2, 1: [0] * 20, 2: nid, 3: b'E', 4: b'm'}), 'fixed:error-rpc-id-is-a-list', None
                yield enc({0: 0, 1: R, 2: nid, 3: b'ping', 4: b'x'}), 'fixed:args-is-a-string', None
                yield enc({0: 0, 1: R, 2: nid, 3: b'ping', 4: {b'a': 1}}), 'fixed:args-is-a-dict', None
            run_batch(rec, {'fam': 'fixed', 'node': {'seed': 0, 'tokens': 'live'}, 'sender': {'kind': skind, 'i': 2}}, g2)
    elif fam == 'trunc':
        run_batch(rec, case, gen_trunc(case))
    elif fam == 'mut1':
        run_batch(rec, case, gen_mut1(case))
    elif fam == 'mutn':
        run_batch(rec, case, gen_mutn(case))
    elif fam == 'nest':
        run_batch(rec, case, gen_nest(case))
    elif fam == 'retype':
        run_batch(rec, case, gen_retype(case))
    elif fam == 'huge':
        run_batch(rec, case, gen_huge(case))
    elif fam == 'rand':
        run_batch(rec, case, gen_rand(case))
    elif fam == 'valid':
        run_batch(rec, case, gen_valid(case))
    elif fam == 'replies':
        run_replies(rec, case)
    elif fam == 'msg':
        start = case.get('start', 0)
        for k in range(start, start + case['count']):
            rec.current_case = {'fam': 'msg', 'seed': case['seed'], 'start': k, 'count': 1}     # minimal replay descriptor
            check_message(rec, *gen_message(random.Random(case['seed'] * 1000003 + k)))
        rec.current_case = case
    elif fam == 'addr':
        if case['mode'] == 'ports':
            nid = H('addr', case['lo'])
            for k in range(case['count']):
                check_addr(rec, nid, case['ip'], 1 + (case['lo'] - 1 + k) % 65535)
        else:
            r = random.Random(case['seed'])
            for k in range(case['count']):
                if k < 1024:
                    o = [r.randrange(256) for _ in range(4)]
                    o[k // 256] = k % 256
                else:
                    o = [r.choice([0, 1, 9, 10, 99, 100, 127, 128, 199, 200, 254, 255, r.randrange(256)]) for _ in range(4)]
                check_addr(rec, r.randbytes(48), '.'.join(map(str, o)), r.choice([1, 255, 256, 1023, 1024, 65535, r.randrange(1, 65536)]))
                if k % 3 == 0:
                    blob = r.randbytes(r.choice([54, 54, 54, 54, 53, 55, 6, 0, 55, 60, 108]))
                    if k % 15 == 0 and len(blob) >= 6:
                        blob = blob[:4] + b'\x00\x00' + blob[6:]
                    check_addr_reverse(rec, blob)
    elif fam == 'prim':
        r = random.Random(case['seed'])
        for _ in range(case['count']):
            check_prim(rec, r)
    else:
        raise ValueError(f'unknown family {fam}')

"""C05 — Transaction wire format and txid.  [DIFF]

Every case is a *model* of a transaction (version, inputs, outputs, locktime, optional witness
stacks).  The model is (a) built through the real library API (Transaction / Input / Output /
InputScript / OutputScript constructors and classmethods) and (b) encoded by the independent
reference `vlib.ref.btc_tx`.  Oracle clauses (DESIGN §4 C05):

  B1  tx.raw == reference legacy encoding of the model
  B2  Transaction(tx.raw) exposes the same version, outpoints, scripts, sequences, amounts and
      locktime; after _reset() it re-serialises to identical bytes
  B3  tx.id == hex(reverse(SHA256d(reference legacy encoding))), tx.hash consistent — for the built
      transaction, the re-parsed one and the BIP144 (segwit) encoding of the same model
  B4  the reference decoder reads tx.raw back to the model
  S   segwit: the reference emits the BIP144 encoding (marker/flag/witness stacks) of the same
      model; Transaction(bip144 bytes) must expose the same fields (S-B2), the legacy id (S-B3) and
      raw_sans_segwit == the reference legacy encoding
  M   real main-net transactions (fixtures/mainnet_txs.json): parse/field/round-trip/known txid.
"""
import hashlib
import json
import os
import random

from vlib import boot, core
from vlib.ref import btc_tx as R

ID = 'C05'
LEVEL = 'exploration'
RULE = ('models of transactions: deterministic boundary families (one length place x one length in '
        '{0,1,2,74..77,251..257,65534..65537}; input/output counts in {1..3,16,17,127,128,251..257,299,300}; every '
        'single-bit / all-but-one-bit / edge value of the 32-bit fields version, locktime, sequence, previous index '
        'and of the 64-bit amount), 10 real main-net transactions, plus seeded random models mixing 9 input kinds '
        '(raw, coinbase, from_id, redeem_pubkey_hash, redeem_pubkey, multisig script-hash, Input.spend chain, spend_time_lock, generated time-lock redeem) and 11 '
        'output kinds (p2pkh, p2sh, claim, update, support, support+data, purchase, return_data, p2pk, segwit program, '
        'raw bytes; claim payloads as raw bytes and as Claim/Support objects).  Every model is also encoded as BIP144 '
        'by the reference with generated witness stacks (0..5 items, boundary item lengths) for the library to parse. '
        'distinct = distinct SHA256 of (reference legacy encoding, reference BIP144 encoding); non-trivial = every '
        'model (at least one input and one output).  No real main-net segwit LBRY transaction is available offline: '
        'the segwit half rests on reference-encoded transactions only.')
ASSUMPTIONS = [
    'vlib.ref.btc_tx is correct: self-tested per shard against the Bitcoin genesis coinbase txid, the BIP143 native-P2WPKH '
    'example (BIP144 decode, legacy SIGHASH_ALL signature of input 0 verified with the ecdsa library), compact-size / '
    'push-data / script-number vectors, and the 10 main-net LBRY fixtures (4 with independently known txids, 8 input '
    'signatures verified with ecdsa over the reference preimage)',
    'claim / support / purchase payload bytes of Claim, Support and Purchase OBJECTS are taken from bytes(obj) of the real '
    'schema classes (their encoding is property C16); raw-bytes payloads are fully independent',
    'output/input scripts of templated kinds are re-assembled by the reference from the public opcode layouts with plain '
    'direct pushes (no minimal-push rewriting to OP_1..OP_16), which is what the property calls the script',
    'versions are modelled as unsigned 32-bit (the wire bytes are identical to the signed reading); zero-input and '
    'zero-output transactions are outside the quantifier (1..300) and only logged',
    'segwit: tx.witnesses content and re-serialisation of a parsed segwit transaction after _reset() are logged, not '
    'judged (the statement asks for fields and the witness-free id only)',
]
FIXTURES = os.path.join(boot.VERIF, 'fixtures', 'mainnet_txs.json')

U32 = 0xFFFFFFFF
U64 = 0xFFFFFFFFFFFFFFFF
BOUND = [0, 1, 2, 74, 75, 76, 77, 251, 252, 253, 254, 255, 256, 257, 65534, 65535, 65536, 65537]
BOUND_SMALL = [b for b in BOUND if b < 1000]
CORE_LEN = {0, 1, 75, 76, 252, 253, 255, 256, 65535, 65536}
COUNTS = [1, 2, 3, 16, 17, 127, 128, 251, 252, 253, 254, 255, 256, 257, 299, 300]
CORE_COUNT = {1, 252, 253, 300}
CORE_U32 = {0, 0x7FFFFFFF, 0x80000000, 0xFFFFFFFF}
CORE_AMOUNT = {0, 1 << 63, U64}
LEN_PLACES = ['in_script', 'coinbase', 'sig', 'pubkey', 'out_script', 'claim_payload', 'update_payload',
              'support_payload', 'claim_object', 'claim_name', 'return_data', 'pkh', 'witness_item', 'witness_count',
              'claim_script_total']
IN_KINDS = ['raw', 'coinbase', 'from_id', 'p2pkh', 'p2pk', 'multisig', 'spend', 'timelock', 'timelock_gen']
OUT_KINDS = ['p2pkh', 'p2sh', 'claim', 'update', 'support', 'support_data', 'purchase', 'return_data', 'p2pk', 'p2w', 'raw']

REQUIRED_HITS = (
    ['B2.flow_object_vs_raw_checked', 'flow.exact', 'flow.dust_surplus', 'flow.change', 'B1.checked', 'B2.fields_checked', 'B2.reserialize_checked', 'B3.built_id_checked', 'B3.parsed_id_checked',
     'B3.hash_checked', 'B4.checked', 'S.B2.fields_checked', 'S.B3.id_checked', 'S.B3.sans_segwit_checked', 'B5.child_outpoints_checked', 'S.B2.raw_of_parsed_checked', 'M.raw_of_parsed_checked',
     'M.fixture_checked', 'M.known_txid_checked', 'M.segwit_variant_checked', 'build.incremental', 'build.late_fields', 'build.parent_completed_after_child_input',
     'payload.claim_object', 'payload.support_object', 'payload.raw_bytes', 'witness.nonempty', 'witness.all_empty']
    + [f'in.{k}' for k in IN_KINDS] + [f'out.{k}' for k in OUT_KINDS] + ['out.tail.sh', 'out.tail.pkh']
    + [f'class.nin.{n}' for n in sorted(CORE_COUNT)] + [f'class.nout.{n}' for n in sorted(CORE_COUNT)]
    + [f'class.len.{p}.{n}' for p in ('in_script', 'out_script', 'claim_payload', 'witness_item') for n in sorted(CORE_LEN)]
    + [f'class.u32.{f}.{v:#x}' for f in ('version', 'locktime', 'sequence', 'prev_index') for v in sorted(CORE_U32)]
    + [f'class.amount.{v:#x}' for v in sorted(CORE_AMOUNT)]
)


def plan(tier):
    return {'shards': 16, 'budget_s': 35 if tier == 'quick' else 600}


# ------------------------------------------------------------------------------ byte descriptors
def B(desc) -> bytes:
    """JSON-able byte-string descriptor -> bytes: hex string | {'r': seed, 'n': len} | {'b': byte, 'n': len}"""
    if isinstance(desc, str):
        return bytes.fromhex(desc)
    if 'r' in desc:
        return random.Random(desc['r']).randbytes(desc['n'])
    return bytes([desc['b']]) * desc['n']


def mkB(rng, n):
    if n <= 48:
        return rng.randbytes(n).hex()
    if rng.random() < 0.15:
        return {'b': rng.choice([0x00, 0xFF, 0xFD, 0x4C, 0xAC]), 'n': n}
    return {'r': rng.getrandbits(40), 'n': n}


def blen(desc):
    return len(desc) // 2 if isinstance(desc, str) else desc['n']


# ------------------------------------------------------------------------------ value generators
def v32_values():
    vals = {0, 1, 2, 0x7F, 0x80, 0xFF, 0x100, 0xFFFE, 0xFFFF, 0x10000, 0x10001, 0xFFFFFF, 0x1000000, 0x7FFFFFFE,
            0x7FFFFFFF, 0x80000000, 0x80000001, 0xFFFFFFFD, 0xFFFFFFFE, 0xFFFFFFFF, 499999999, 500000000}
    for k in range(32):
        vals |= {1 << k, (1 << k) - 1, U32 ^ (1 << k)}
    return sorted(vals)


def v64_values():
    vals = {0, 1, 2, 10 ** 8, 21 * 10 ** 14, 2 ** 53, 2 ** 53 + 1, U64, U64 - 1}
    for k in range(64):
        vals |= {1 << k, (1 << k) - 1, U64 ^ (1 << k)}
    return sorted(vals)


def rnd_u32(rng, common=None):
    x = rng.random()
    if common is not None and x < 0.4:
        return common
    if x < 0.6:
        return rng.choice([0, 1, 2, 0xFF, 0xFFFF, 0x10000, 0x7FFFFFFF, 0x80000000, 0xFFFFFFFE, 0xFFFFFFFF])
    if x < 0.8:
        return rng.getrandbits(rng.randrange(1, 33))
    return rng.getrandbits(32)


def rnd_amount(rng):
    x = rng.random()
    if x < 0.2:
        return rng.choice([0, 1, 10 ** 8, 2 ** 31, 2 ** 32, 2 ** 53, 2 ** 63 - 1, 2 ** 63, U64 - 1, U64])
    if x < 0.7:
        return rng.getrandbits(rng.randrange(1, 65))
    return rng.getrandbits(64)


def rnd_len(rng, big_ok=False):
    x = rng.random()
    if x < 0.55:
        return rng.randrange(0, 80)
    if x < 0.80:
        return rng.choice(BOUND_SMALL)
    if x < 0.96 or not big_ok:
        return rng.randrange(80, 1500)
    return rng.choice([65534, 65535, 65536, 65537, 70001])


NAME_ALPHABET = 'abcXYZ019-_@é日本語😀 ñ'


def rnd_name(rng, nbytes=None):
    if nbytes is not None:
        return ''.join(rng.choice('abcdefghijklmnopqrstuvwxyz0123456789-') for _ in range(nbytes))
    n = rng.choice([0, 1, 3, 8, 8, 20, 40, 75, 76, 255, 256]) if rng.random() < 0.3 else rng.randrange(1, 24)
    return ''.join(rng.choice(NAME_ALPHABET) for _ in range(n))


def rnd_hash32(rng):
    h = rng.randbytes(32)
    return (h if any(h) else b'\x01' * 32).hex()


# ------------------------------------------------------------------------------ spec generators
def gen_payload(rng, what, length=None, as_object=None):
    """what: 'claim' | 'support'.  returns a payload descriptor: byte descriptor, {'claim': ..} or {'support': ..}"""
    if as_object is None:
        as_object = rng.random() < 0.4
    if not as_object:
        return mkB(rng, rnd_len(rng, True) if length is None else length)
    if what == 'support':
        d = {'comment_len': rng.choice([0, 1, 5, 60, 200]), 'signed': rng.random() < 0.4, 'sig_seed': rng.getrandbits(32)}
        if length is not None:
            d['target_len'] = length
        return {'support': d}
    d = {'type': rng.choice(['stream', 'stream', 'channel', 'repost', 'collection', 'empty']),
         'title': rnd_name(rng), 'desc_len': rng.choice([0, 1, 10, 100, 127, 128, 300, 2000]),
         'signed': rng.random() < 0.4, 'sig_seed': rng.getrandbits(32)}
    if length is not None:
        d['target_len'] = length
    return {'claim': d}


def gen_output(rng, kind=None, **over):
    kind = kind or rng.choice(OUT_KINDS + ['p2pkh', 'claim', 'raw'])
    o = {'kind': kind, 'amount': rnd_amount(rng)}
    hlen = 20 if rng.random() < 0.85 else rng.choice([0, 1, 19, 21, 32, 33, 75, 76])
    if kind in ('p2pkh', 'p2sh'):
        o['hash'] = mkB(rng, hlen)
    elif kind in ('claim', 'update', 'support', 'support_data'):
        o['name'] = rnd_name(rng)
        o['hash'] = mkB(rng, hlen)
        o['tail'] = 'pkh' if rng.random() < 0.7 else 'sh'
        if kind != 'claim':
            o['claim_id'] = rng.randbytes(20 if rng.random() < 0.9 else rng.choice([0, 1, 19, 21, 32])).hex()
        if kind in ('claim', 'update'):
            o['payload'] = gen_payload(rng, 'claim')
        if kind == 'support_data':
            o['payload'] = gen_payload(rng, 'support')
    elif kind == 'purchase':
        o['amount'] = 0        # Output.add_purchase_data fixes the amount at 0
        o['claim_id'] = rng.randbytes(20).hex()
    elif kind == 'return_data':
        o['data'] = mkB(rng, rnd_len(rng))
    elif kind == 'p2pk':
        o['pubkey'] = mkB(rng, rng.choice([33, 33, 65, 0, 1, 76]))
    elif kind == 'p2w':
        o['program'] = mkB(rng, rng.choice([20, 32, 32, 2, 40]))
    elif kind == 'raw':
        o['script'] = mkB(rng, rnd_len(rng, True))
    o.update(over)
    return o


def gen_prev(rng, want):
    """a small previous transaction whose output `prev_out` the chained input spends"""
    outs = [gen_output(rng, rng.choice(['p2pkh', 'p2sh', 'raw', 'return_data'])) for _ in range(rng.randrange(0, 3))]
    pos = rng.randrange(len(outs) + 1)
    outs.insert(pos, want)
    return {'version': rnd_u32(rng, 1), 'locktime': rnd_u32(rng, 0),
            'inputs': [gen_input(rng, rng.choice(['raw', 'coinbase', 'p2pkh']), chain_ok=False)],
            'outputs': outs}, pos


def gen_input(rng, kind=None, chain_ok=True, **over):
    if kind is None:
        kind = (rng.choice(IN_KINDS + ['raw', 'p2pkh']) if chain_ok else
                rng.choice(['raw', 'coinbase', 'from_id', 'p2pkh', 'p2pk', 'multisig', 'timelock_gen']))
    i = {'kind': kind, 'sequence': rnd_u32(rng, U32)}
    idx = rng.randrange(0, 6) if rng.random() < 0.6 else rnd_u32(rng)
    if kind == 'raw':
        i.update(hash=rnd_hash32(rng), index=idx, script=mkB(rng, rnd_len(rng, True)))
    elif kind == 'coinbase':
        i.update(index=U32 if rng.random() < 0.7 else idx, script=mkB(rng, rng.choice([2, 4, 31, 32, 100, rnd_len(rng)])))
    elif kind == 'from_id':
        i.update(txid=rnd_hash32(rng), index=idx, script=mkB(rng, rnd_len(rng)))
    elif kind == 'p2pkh':
        i.update(hash=rnd_hash32(rng), index=idx, sig=mkB(rng, rng.choice([71, 72, 73, 72, 0, 1, 75, 76])),
                 pubkey=mkB(rng, rng.choice([33, 33, 65, 0, 76])))
    elif kind == 'p2pk':
        i.update(hash=rnd_hash32(rng), index=idx, sig=mkB(rng, rng.choice([71, 72, 73, 1, 75, 76, 255, 256])))
    elif kind == 'timelock_gen':
        i.update(hash=rnd_hash32(rng), index=idx, sig=mkB(rng, rng.choice([71, 72, 73])), pubkey=mkB(rng, 33),
                 height=rng.choice([1, 16, 17, 127, 128, 255, 256, 32767, 32768, 717738, 2 ** 31 - 1, rng.randrange(1, 2 ** 31)]),
                 pkh=rng.randbytes(20).hex())
    elif kind == 'multisig':
        m = rng.randrange(1, 4)
        n = rng.randrange(m, m + 3)
        i.update(hash=rnd_hash32(rng), index=idx, sigs=[mkB(rng, rng.choice([71, 72, 73])) for _ in range(m)],
                 pubkeys=[mkB(rng, rng.choice([33, 65])) for _ in range(n)])
    elif kind == 'spend':
        tail_kind = rng.choice(['p2pkh', 'p2pkh', 'claim', 'update', 'support', 'support_data'])
        want = gen_output(rng, tail_kind)
        if 'tail' in want:
            want['tail'] = 'pkh'      # Input.spend only spends *pay_pubkey_hash outputs
        prev, pos = gen_prev(rng, want)
        i.update(prev=prev, prev_out=pos)
        if rng.random() < 0.5:
            i['sequence'] = None        # keep Input.spend's default
        if rng.random() < 0.4:
            i['late_parent'] = rng.randrange(8)
    elif kind == 'timelock':
        height = rng.choice([1, 127, 128, 255, 256, 32767, 32768, 717738, 2 ** 31 - 1, rng.randrange(1, 2 ** 31)])
        pkh = rng.randbytes(20).hex()
        script = R.timelock_script(height, bytes.fromhex(pkh))
        want = {'kind': 'p2sh', 'amount': rnd_amount(rng), 'hash': R.hash160(script).hex()}
        prev, pos = gen_prev(rng, want)
        i.update(prev=prev, prev_out=pos, height=height, pkh=pkh)
        if rng.random() < 0.5:
            i['sequence'] = None
        if rng.random() < 0.4:
            i['late_parent'] = rng.randrange(8)
    i.update(over)
    return i


def gen_witness(rng, nin, force_nonempty=False):
    mode = rng.random()
    stacks = []
    for _ in range(nin):
        if mode < 0.1 and not force_nonempty:
            stacks.append([])
            continue
        k = rng.choice([0, 1, 2, 2, 3, 4, 5])
        stacks.append([mkB(rng, rng.choice([0, 1, 32, 33, 71, 72, 73, 75, 76, rnd_len(rng)])) for _ in range(k)])
    if force_nonempty and not any(stacks):
        stacks[0] = [mkB(rng, 72), mkB(rng, 33)]
    return stacks


def gen_model(rng, nin=None, nout=None, segwit=None):
    nin = nin or rng.choice([1, 1, 1, 2, 2, 3, 4, 6])
    nout = nout or rng.choice([1, 1, 2, 2, 3, 4, 7])
    light = nin + nout > 40
    spec = {'version': rnd_u32(rng, rng.choice([1, 2])), 'locktime': rnd_u32(rng, 0)}
    if light:
        spec['inputs'] = [gen_input(rng, rng.choice(['raw', 'raw', 'p2pkh', 'from_id', 'coinbase', 'spend'])
                                    if rng.random() < 0.97 else None) for _ in range(nin)]
        spec['outputs'] = [gen_output(rng, rng.choice(['p2pkh', 'p2pkh', 'p2sh', 'support', 'return_data', 'p2w', 'purchase'])
                                      if rng.random() < 0.97 else None) for _ in range(nout)]
    else:
        spec['inputs'] = [gen_input(rng) for _ in range(nin)]
        spec['outputs'] = [gen_output(rng) for _ in range(nout)]
    if rng.random() < 0.25:
        spec['incremental'] = rng.getrandbits(32)
    if rng.random() < 0.15:
        spec['late_fields'] = True
    if segwit is None:
        segwit = rng.random() < 0.7
    if segwit:
        spec['witness'] = gen_witness(rng, nin)
    return spec


def gen_len_model(rng, place, L):
    spec = gen_model(rng, nin=rng.choice([1, 2]), nout=rng.choice([1, 2]), segwit=True)
    tag = None
    if place == 'in_script':
        spec['inputs'][0] = gen_input(rng, 'raw', script=mkB(rng, L))
    elif place == 'coinbase':
        spec['inputs'][0] = gen_input(rng, 'coinbase', script=mkB(rng, L))
    elif place == 'sig':
        spec['inputs'][0] = gen_input(rng, 'p2pkh', sig=mkB(rng, L))
    elif place == 'pubkey':
        spec['inputs'][0] = gen_input(rng, 'p2pkh', pubkey=mkB(rng, L))
    elif place == 'out_script':
        spec['outputs'][0] = gen_output(rng, 'raw', script=mkB(rng, L))
    elif place == 'claim_payload':
        spec['outputs'][0] = gen_output(rng, 'claim', payload=mkB(rng, L))
    elif place == 'update_payload':
        spec['outputs'][0] = gen_output(rng, 'update', payload=mkB(rng, L))
    elif place == 'support_payload':
        spec['outputs'][0] = gen_output(rng, 'support_data', payload=mkB(rng, L))
    elif place == 'claim_object':
        spec['outputs'][0] = gen_output(rng, rng.choice(['claim', 'update']), payload=gen_payload(rng, 'claim', max(L, 1), True))
    elif place == 'claim_name':
        spec['outputs'][0] = gen_output(rng, rng.choice(['claim', 'update', 'support', 'support_data']), name=rnd_name(rng, L))
    elif place == 'return_data':
        spec['outputs'][0] = gen_output(rng, 'return_data', data=mkB(rng, L))
    elif place == 'pkh':
        spec['outputs'][0] = gen_output(rng, rng.choice(['p2pkh', 'p2sh', 'claim']), hash=mkB(rng, L))
    elif place == 'witness_item':
        spec['witness'][0] = [mkB(rng, 3), mkB(rng, L)] if rng.random() < 0.5 else [mkB(rng, L)]
    elif place == 'witness_count':
        spec['witness'][0] = [mkB(rng, rng.choice([0, 1, 2])) for _ in range(min(L, 600))]
    elif place == 'claim_script_total':
        # choose the payload length so that the whole claim script is exactly L bytes long
        name = rnd_name(rng, 4)
        pkh = rng.randbytes(20)
        L = max(L, 40)
        for plen in range(max(0, L - 45), L):
            if len(R.claim_name(name.encode(), bytes(plen), R.p2pkh(pkh))) == L:
                spec['outputs'][0] = {'kind': 'claim', 'amount': rnd_amount(rng), 'name': name, 'hash': pkh.hex(),
                                      'tail': 'pkh', 'payload': mkB(rng, plen)}
                break
    return spec


def deterministic_cases(tier):
    """identical list in every shard; shard i takes index % nshards == i"""
    out = [{'fam': 'fixtures'}]
    lens = list(BOUND)
    if tier == 'thorough':
        lens = sorted(set(BOUND) | set(range(0, 301)) | set(range(65530, 65541)) | {131071, 131072, 1_000_000})
    for place in LEN_PLACES:
        for L in lens:
            if place == 'witness_count' and L > 600:
                continue
            out.append({'fam': 'len', 'place': place, 'L': L})
    counts = COUNTS if tier == 'quick' else list(range(1, 301))
    for n in counts:
        out.append({'fam': 'count', 'nin': n, 'nout': 1})
        out.append({'fam': 'count', 'nin': 1, 'nout': n})
        if n in COUNTS:
            out.append({'fam': 'count', 'nin': n, 'nout': n})
    for a, b in [(252, 253), (253, 252), (300, 253), (253, 300)]:
        out.append({'fam': 'count', 'nin': a, 'nout': b})
    v32 = v32_values()
    for field in ('version', 'locktime', 'sequence', 'prev_index'):
        for k in range(0, len(v32), 6):
            out.append({'fam': 'u32', 'field': field, 'values': v32[k:k + 6]})
    v64 = v64_values()
    for k in range(0, len(v64), 12):
        out.append({'fam': 'amount', 'values': v64[k:k + 12]})
    return out


def gen_cases(rng, tier, shard, nshards):
    for idx, c in enumerate(deterministic_cases(tier)):
        if idx % nshards == shard:
            c = dict(c)
            c['seed'] = rng.getrandbits(48)
            yield c
    for _ in range(3 if tier == 'quick' else 60):
        yield {'fam': 'flow', 'seed': rng.getrandbits(48)}
    nrand = 200 if tier == 'quick' else 6000
    for _ in range(nrand):
        yield {'fam': 'rand', 'seed': rng.getrandbits(48), 'count': 30}
    if tier == 'thorough':
        for _ in range(40):
            yield {'fam': 'count', 'nin': rng.randrange(1, 301), 'nout': rng.randrange(1, 301), 'seed': rng.getrandbits(48)}


# ------------------------------------------------------------------------------ model -> reference
def payload_for(desc):
    """-> (object handed to the library, bytes the model expects in the script)"""
    if isinstance(desc, dict) and 'claim' in desc:
        obj = make_claim(desc['claim'])
        return obj, bytes(obj)
    if isinstance(desc, dict) and 'support' in desc:
        obj = make_support(desc['support'])
        return obj, bytes(obj)
    b = B(desc)
    return b, b


def _sign_fields(obj, d):
    if d.get('signed'):
        r = random.Random(d.get('sig_seed', 0))
        obj.signing_channel_hash = r.randbytes(20)
        obj.signature = r.randbytes(64)


def make_claim(d):
    from lbry.schema.claim import Claim

    def build(title_len, desc_len):
        c = Claim()
        t = d.get('type', 'stream')
        title = (d.get('title', '') + 't' * title_len) if title_len else d.get('title', '')
        if t == 'stream':
            c.stream.title = title
            c.stream.description = 'd' * desc_len
        elif t == 'channel':
            c.channel.title = title
            c.channel.description = 'd' * desc_len
            c.channel.public_key_bytes = b'\x02' + bytes(range(32))
        elif t == 'repost':
            c.repost.reference.claim_id = 'ab' * 20
            c.repost.description = 'd' * desc_len
        elif t == 'collection':
            c.collection.claims.append('cd' * 20)
            c.collection.description = 'd' * desc_len
        _sign_fields(c, d)
        return c
    target = d.get('target_len')
    if target is None:
        return build(0, d.get('desc_len', 0))
    d = dict(d, type=d.get('type') if d.get('type') in ('stream', 'channel') else 'stream', title='')
    base = len(bytes(build(0, 0)))
    if target <= base:
        return build(0, 0)
    for extra_title in range(0, 6):
        desc_len = max(0, target - base - 8)
        for _ in range(12):
            c = build(extra_title, desc_len)
            diff = target - len(bytes(c))
            if diff == 0:
                return c
            desc_len = max(0, desc_len + diff)
    return build(0, max(0, target - base))


def make_support(d):
    from lbry.schema.support import Support

    def build(n):
        s = Support()
        if n:
            s.comment = 'c' * n
        _sign_fields(s, d)
        return s
    target = d.get('target_len')
    if target is None:
        return build(d.get('comment_len', 0))
    base = len(bytes(build(0)))
    n = max(0, target - base - 4)
    for _ in range(12):
        s = build(n)
        diff = target - len(bytes(s))
        if diff == 0:
            return s
        n = max(0, n + diff)
    return build(n)


def ref_tail(o):
    h = B(o['hash'])
    return R.p2pkh(h) if o.get('tail', 'pkh') == 'pkh' else R.p2sh(h)


def ref_output(o, payload_bytes):
    k = o['kind']
    if k == 'p2pkh':
        s = R.p2pkh(B(o['hash']))
    elif k == 'p2sh':
        s = R.p2sh(B(o['hash']))
    elif k == 'claim':
        s = R.claim_name(o['name'].encode('utf-8'), payload_bytes, ref_tail(o))
    elif k == 'update':
        s = R.update_claim(o['name'].encode('utf-8'), bytes.fromhex(o['claim_id'])[::-1], payload_bytes, ref_tail(o))
    elif k == 'support':
        s = R.support_claim(o['name'].encode('utf-8'), bytes.fromhex(o['claim_id'])[::-1], ref_tail(o))
    elif k == 'support_data':
        s = R.support_claim_data(o['name'].encode('utf-8'), bytes.fromhex(o['claim_id'])[::-1], payload_bytes, ref_tail(o))
    elif k == 'purchase':
        s = R.op_return(payload_bytes)
    elif k == 'return_data':
        s = R.op_return(B(o['data']))
    elif k == 'p2pk':
        s = R.p2pk(B(o['pubkey']))
    elif k == 'p2w':
        s = R.witness_program(B(o['program']))
    elif k == 'raw':
        s = B(o['script'])
    else:
        raise ValueError(k)
    return R.TxOut(o['amount'], s)


class Built:
    """reference model + the payload objects to hand to the library, for one spec (recursive for chains)"""

    def __init__(self, spec):
        self.spec = spec
        self.payloads = []
        outs = []
        for o in spec['outputs']:
            obj = pb = None
            if o['kind'] == 'purchase':
                from lbry.schema.purchase import Purchase
                obj = Purchase(o['claim_id'])
                pb = bytes(obj)
            elif 'payload' in o:
                obj, pb = payload_for(o['payload'])
            self.payloads.append((obj, pb))
            outs.append(ref_output(o, pb))
        self.prev = []
        ins = []
        for i in spec['inputs']:
            k = i['kind']
            prev = None
            seq = i['sequence'] if i.get('sequence') is not None else U32
            if k == 'raw':
                ti = R.TxIn(bytes.fromhex(i['hash']), i['index'], B(i['script']), seq)
            elif k == 'coinbase':
                ti = R.TxIn(bytes(32), i['index'], B(i['script']), seq)
            elif k == 'from_id':
                ti = R.TxIn(bytes.fromhex(i['txid'])[::-1], i['index'], B(i['script']), seq)
            elif k == 'p2pkh':
                ti = R.TxIn(bytes.fromhex(i['hash']), i['index'], R.redeem_p2pkh(B(i['sig']), B(i['pubkey'])), seq)
            elif k == 'p2pk':
                ti = R.TxIn(bytes.fromhex(i['hash']), i['index'], R.push(B(i['sig'])), seq)
            elif k == 'timelock_gen':
                script = R.timelock_script(i['height'], bytes.fromhex(i['pkh']))
                ti = R.TxIn(bytes.fromhex(i['hash']), i['index'], R.redeem_timelock(B(i['sig']), B(i['pubkey']), script), seq)
            elif k == 'multisig':
                inner = R.multisig_script(len(i['sigs']), [B(p) for p in i['pubkeys']])
                ti = R.TxIn(bytes.fromhex(i['hash']), i['index'], R.redeem_multisig([B(s) for s in i['sigs']], inner), seq)
            elif k == 'spend':
                prev = Built(i['prev'])
                ti = R.TxIn(R.tx_hash(prev.model), i['prev_out'], R.redeem_p2pkh(bytes(72), bytes(33)), seq)
            elif k == 'timelock':
                prev = Built(i['prev'])
                script = R.timelock_script(i['height'], bytes.fromhex(i['pkh']))
                ti = R.TxIn(R.tx_hash(prev.model), i['prev_out'], R.redeem_timelock(bytes(72), bytes(33), script), seq)
            else:
                raise ValueError(k)
            self.prev.append(prev)
            ins.append(ti)
        self.model = R.Tx(spec['version'], ins, outs, spec['locktime'],
                          [[B(x) for x in st] for st in spec['witness']] if spec.get('witness') is not None else None)


# ------------------------------------------------------------------------------ model -> library
def lib_output(o, payload_obj):
    from lbry.wallet.transaction import Output
    from lbry.wallet.script import OutputScript as OS
    k, amount = o['kind'], o['amount']
    sh = o.get('tail') == 'sh'
    if k == 'p2pkh':
        return Output.pay_pubkey_hash(amount, B(o['hash']))
    if k == 'p2sh':
        return Output.pay_script_hash(amount, B(o['hash']))
    if k == 'claim':
        if sh:
            return Output(amount, OS(template=OS.CLAIM_NAME_SCRIPT, values={
                'claim_name': o['name'].encode(), 'claim': payload_obj, 'script_hash': B(o['hash'])}))
        return Output.pay_claim_name_pubkey_hash(amount, o['name'], payload_obj, B(o['hash']))
    if k == 'update':
        if sh:
            return Output(amount, OS(template=OS.UPDATE_CLAIM_SCRIPT, values={
                'claim_name': o['name'].encode(), 'claim_id': bytes.fromhex(o['claim_id'])[::-1], 'claim': payload_obj,
                'script_hash': B(o['hash'])}))
        return Output.pay_update_claim_pubkey_hash(amount, o['name'], o['claim_id'], payload_obj, B(o['hash']))
    if k == 'support':
        if sh:
            return Output(amount, OS(template=OS.SUPPORT_CLAIM_SCRIPT, values={
                'claim_name': o['name'].encode(), 'claim_id': bytes.fromhex(o['claim_id'])[::-1], 'script_hash': B(o['hash'])}))
        return Output.pay_support_pubkey_hash(amount, o['name'], o['claim_id'], B(o['hash']))
    if k == 'support_data':
        if sh:
            return Output(amount, OS(template=OS.SUPPORT_CLAIM_DATA_SCRIPT, values={
                'claim_name': o['name'].encode(), 'claim_id': bytes.fromhex(o['claim_id'])[::-1], 'support': payload_obj,
                'script_hash': B(o['hash'])}))
        return Output.pay_support_data_pubkey_hash(amount, o['name'], o['claim_id'], payload_obj, B(o['hash']))
    if k == 'purchase':
        return Output.add_purchase_data(payload_obj)
    if k == 'return_data':
        return Output(amount, OS.return_data(B(o['data'])))
    if k == 'p2pk':
        return Output(amount, OS(template=OS.PAY_PUBKEY_FULL, values={'pubkey': B(o['pubkey'])}))
    if k == 'p2w':
        return Output(amount, OS(template=OS.PAY_SEGWIT, values={'script_hash': B(o['program'])}))
    if k == 'raw':
        return Output(amount, OS(B(o['script'])))
    raise ValueError(k)


LATE_PARENTS = [0]


def lib_input(i, prev_built):
    from lbry.wallet.transaction import Input, TXORef
    from lbry.wallet.hash import TXRefImmutable
    from lbry.wallet.script import InputScript as IS
    k = i['kind']
    if k == 'raw':
        return Input(TXORef(TXRefImmutable.from_hash(bytes.fromhex(i['hash']), -1), i['index']), IS(B(i['script'])), i['sequence'])
    if k == 'coinbase':
        return Input(TXORef(TXRefImmutable.from_hash(bytes(32), -1), i['index']), B(i['script']), i['sequence'])
    if k == 'from_id':
        return Input(TXORef(TXRefImmutable.from_id(i['txid'], 7), i['index']), IS(B(i['script'])), i['sequence'])
    if k == 'p2pkh':
        return Input(TXORef(TXRefImmutable.from_hash(bytes.fromhex(i['hash']), -1), i['index']),
                     IS.redeem_pubkey_hash(B(i['sig']), B(i['pubkey'])), i['sequence'])
    if k == 'p2pk':
        return Input(TXORef(TXRefImmutable.from_hash(bytes.fromhex(i['hash']), -1), i['index']),
                     IS(template=IS.REDEEM_PUBKEY, values={'signature': B(i['sig'])}), i['sequence'])
    if k == 'timelock_gen':
        return Input(TXORef(TXRefImmutable.from_hash(bytes.fromhex(i['hash']), -1), i['index']),
                     IS.redeem_time_lock_script_hash(B(i['sig']), B(i['pubkey']), height=i['height'],
                                                     pubkey_hash=bytes.fromhex(i['pkh'])), i['sequence'])
    if k == 'multisig':
        return Input(TXORef(TXRefImmutable.from_hash(bytes.fromhex(i['hash']), -1), i['index']),
                     IS.redeem_multi_sig_script_hash([B(s) for s in i['sigs']], [B(p) for p in i['pubkeys']]), i['sequence'])
    if k in ('spend', 'timelock'):
        late = i.get('late_parent')
        pspec = prev_built.spec
        finish = None
        if late is not None:
            # the parent is still under construction when the child input is made and looked at, and is completed afterwards - what
            # Transaction.create does with change, and spend_time_lock with version / locktime (seeded break C05-K cached the
            # serialised outpoint in the reference, so the child kept the parent's *earlier* id).  The expectation is untouched:
            # the reference model hashes the parent as the spec describes it, i.e. as it is at the end
            import copy
            pb = copy.copy(prev_built)
            if late % 2 == 0 and i['prev_out'] < len(pspec['outputs']) - 1:
                pb.spec = dict(pspec, outputs=pspec['outputs'][:-1])
                pb.payloads = prev_built.payloads[:-1]
                finish = 'output'
            else:
                pb.spec = dict(pspec, locktime=pspec['locktime'] ^ 1)
                finish = 'locktime'
            prev_tx = lib_build(pb)
        else:
            prev_tx = lib_build(prev_built)
        txo = prev_tx.outputs[i['prev_out']]
        if k == 'spend':
            txi = Input.spend(txo)
        else:
            txi = Input.spend_time_lock(txo, R.timelock_script(i['height'], bytes.fromhex(i['pkh'])))
        if finish is not None:
            from lbry.wallet.bcd_data_stream import BCDataStream
            look = (late // 2) % 4
            if look == 0:
                _ = txi.txo_ref.hash
            elif look == 1:
                _ = txi.txo_ref.id
            elif look == 2:
                txi.serialize_to(BCDataStream())
            else:
                _ = (txi.size, txo.id, prev_tx.id)
            if finish == 'output':
                prev_tx.add_outputs([lib_output(pspec['outputs'][-1], prev_built.payloads[-1][0])])
            else:
                prev_tx.locktime = pspec['locktime']
                prev_tx._reset()
            LATE_PARENTS[0] += 1
        if i.get('sequence') is not None:
            txi.sequence = i['sequence']
        return txi
    raise ValueError(k)


def lib_build(built):
    """assemble the transaction through the public library API"""
    from lbry.wallet.transaction import Transaction
    spec = built.spec
    late = spec.get('late_fields')
    tx = Transaction() if late else Transaction(version=spec['version'], locktime=spec['locktime'])
    ins = [lib_input(i, p) for i, p in zip(spec['inputs'], built.prev)]
    outs = [lib_output(o, pl[0]) for o, pl in zip(spec['outputs'], built.payloads)]
    if spec.get('incremental') is not None:
        r = random.Random(spec['incremental'])
        chunks = []
        for kind, items in (('i', ins), ('o', outs)):
            cut = sorted(r.randrange(len(items) + 1) for _ in range(r.randrange(0, 3)))
            pieces = [items[a:b] for a, b in zip([0] + cut, cut + [len(items)])]
            chunks.append([(kind, p) for p in pieces])
        order = []
        a, b = chunks
        while a or b:
            src = a if (a and (not b or r.random() < 0.5)) else b
            order.append(src.pop(0))
        for kind, piece in order:
            (tx.add_inputs if kind == 'i' else tx.add_outputs)(piece)
            touch = r.randrange(4)     # what Transaction.create does between additions: look at raw / size / id
            if touch == 0:
                _ = tx.raw
            elif touch == 1:
                _ = tx.id
            elif touch == 2:
                _ = (tx.size, tx.base_size)
            if tx.outputs and r.random() < 0.5:
                # what the wallet does with the outputs of a transaction under construction: reads their ids, wraps them in inputs,
                # asks for estimators - each of which computes (and may cache) the id of the still unfinished transaction
                o = tx.outputs[r.randrange(len(tx.outputs))]
                t2 = r.randrange(3)
                if t2 == 0:
                    _ = o.id
                elif t2 == 1 and o.script.is_pay_pubkey_hash:
                    from lbry.wallet.transaction import Input
                    _ = Input.spend(o)
                else:
                    _ = o.tx_ref.hash
    else:
        tx.add_inputs(ins).add_outputs(outs)
    if late:
        _ = tx.raw                     # a cached serialisation exists, as in Transaction.spend_time_lock
        tx.version = spec['version']
        tx.locktime = spec['locktime']
        tx._reset()
    return tx


# ------------------------------------------------------------------------------ oracle
def lbry_site(exc):
    tb, site = exc.__traceback__, 'harness'
    while tb is not None:
        fn = tb.tb_frame.f_code.co_filename
        if os.sep + 'lbry' + os.sep in fn:
            site = tb.tb_frame.f_code.co_name
        tb = tb.tb_next
    return f'{type(exc).__name__}@{site}'


def summary(spec):
    def kinds(items):
        ks = [x['kind'] for x in items]
        return ','.join(ks) if len(ks) <= 6 else ','.join(ks[:5]) + f',..({len(ks)})'
    return (f"v={spec['version']:#x} lock={spec['locktime']:#x} in[{len(spec['inputs'])}]={kinds(spec['inputs'])} "
            f"out[{len(spec['outputs'])}]={kinds(spec['outputs'])}"
            + (' +witness' if spec.get('witness') is not None else '')
            + (' incremental' if spec.get('incremental') is not None else '') + (' late_fields' if spec.get('late_fields') else ''))


def ctx(b, off, n=12):
    return b[max(0, off - 4):off + n].hex()


def lib_in_script(txi):
    if txi.script is None:
        return txi.coinbase
    return txi.script.source


def compare_fields(parsed, model, clause, spec, rec, vcase, raw):
    """B2 / S-B2: what Transaction(raw) exposes vs the model.  returns True if everything matched"""
    ok = True

    def bad(field, got, want, where=''):
        nonlocal ok
        ok = False
        rec.violation(f'C05/{clause}/field/{field}',
                      f'Transaction(raw){where}.{field} = {short(got)} but the model has {short(want)}; model: {summary(spec)}; '
                      f'raw[{len(raw)}]={raw[:60].hex()}..',
                      {'field': field + where, 'got': got, 'model_value': want, 'raw': raw, 'model': spec}, case=vcase)
    if parsed.version != model.version:
        bad('version', parsed.version, model.version)
    if parsed.locktime != model.locktime:
        bad('locktime', parsed.locktime, model.locktime)
    pin, pout = list(parsed.inputs), list(parsed.outputs)
    if len(pin) != len(model.inputs):
        bad('input-count', len(pin), len(model.inputs))
    if len(pout) != len(model.outputs):
        bad('output-count', len(pout), len(model.outputs))
    for k, (li, mi) in enumerate(zip(pin, model.inputs)):
        w = f' input {k}'
        if li.txo_ref.tx_ref.hash != mi.prev_hash:
            bad('in.prev-hash', li.txo_ref.tx_ref.hash, mi.prev_hash, w)
        elif li.txo_ref.tx_ref.id != mi.prev_hash[::-1].hex():
            bad('in.prev-id', li.txo_ref.tx_ref.id, mi.prev_hash[::-1].hex(), w)
        if li.txo_ref.position != mi.prev_index:
            bad('in.prev-index', li.txo_ref.position, mi.prev_index, w)
        if li.sequence != mi.sequence:
            bad('in.sequence', li.sequence, mi.sequence, w)
        if lib_in_script(li) != mi.script:
            bad('in.script', lib_in_script(li), mi.script, w)
        if li.position != k:
            bad('in.position', li.position, k, w)
        if not ok:
            break
    for k, (lo, mo) in enumerate(zip(pout, model.outputs)):
        w = f' output {k}'
        if lo.amount != mo.amount:
            bad('out.amount', lo.amount, mo.amount, w)
        if lo.script.source != mo.script:
            bad('out.script', lo.script.source, mo.script, w)
        if lo.position != k:
            bad('out.position', lo.position, k, w)
        if not ok:
            break
    return ok


def short(x):
    if isinstance(x, (bytes, bytearray)):
        return f'bytes[{len(x)}]:{bytes(x[:24]).hex()}' + ('..' if len(x) > 24 else '')
    return repr(x)[:80]


def class_counters(rec, spec, model):
    for k in {i['kind'] for i in spec['inputs']}:
        rec.hit(f'in.{k}')
    for k in {o['kind'] for o in spec['outputs']}:
        rec.hit(f'out.{k}')
    for t in {o['tail'] for o in spec['outputs'] if 'tail' in o}:
        rec.hit(f'out.tail.{t}')
    if len(model.inputs) in CORE_COUNT:
        rec.hit(f'class.nin.{len(model.inputs)}')
    if len(model.outputs) in CORE_COUNT:
        rec.hit(f'class.nout.{len(model.outputs)}')
    for L in {len(i.script) for i in model.inputs} & CORE_LEN:
        rec.hit(f'class.len.in_script.{L}')
    for L in {len(o.script) for o in model.outputs} & CORE_LEN:
        rec.hit(f'class.len.out_script.{L}')
    for f, vals in (('version', {model.version}), ('locktime', {model.locktime}),
                    ('sequence', {i.sequence for i in model.inputs}), ('prev_index', {i.prev_index for i in model.inputs})):
        for v in vals & CORE_U32:
            rec.hit(f'class.u32.{f}.{v:#x}')
    for v in {o.amount for o in model.outputs} & CORE_AMOUNT:
        rec.hit(f'class.amount.{v:#x}')
    if model.witnesses is not None:
        for L in {len(it) for st in model.witnesses for it in st} & CORE_LEN:
            rec.hit(f'class.len.witness_item.{L}')
        for n in {len(st) for st in model.witnesses} & {0, 1, 5, 252, 253}:
            rec.hit(f'class.witness_count.{n}')
        rec.hit('witness.nonempty' if any(model.witnesses) else 'witness.all_empty')
    if spec.get('incremental') is not None:
        rec.hit('build.incremental')
    if spec.get('late_fields'):
        rec.hit('build.late_fields')


_sampled = set()


def run_model(rec, spec, family, known_txid=None):
    """all oracle clauses for one model"""
    from lbry.wallet.transaction import Transaction
    vcase = {'fam': 'model', 'model': spec, 'family': family}
    if known_txid:
        vcase['known_txid'] = known_txid
    nin, nout = len(spec['inputs']), len(spec['outputs'])
    if nin == 0 or nout == 0:
        rec.log('outside_quantifier.zero_inputs_or_outputs')
        return
    built = Built(spec)
    model = built.model
    layout = []
    expected = R.encode_legacy(model, layout)
    if R.decode(expected).core() != model.core():     # harness self-consistency, not a verdict
        raise AssertionError('reference encode/decode disagree on ' + summary(spec))
    exp_hash = R.sha256d(expected)
    exp_id = exp_hash[::-1].hex()
    segwit_raw = R.encode_bip144(model) if model.witnesses is not None else None
    fam_class = family.split(':')[0]
    fresh = fam_class not in _sampled
    _sampled.add(fam_class)
    rec.case(hashlib.sha256(expected + (segwit_raw or b'')).digest(),
             sample=None if not fresh else {'family': family, 'model': summary(spec), 'reference_raw': expected[:96].hex() + ('..' if len(expected) > 96 else ''),
                     'raw_len': len(expected), 'txid': exp_id,
                     'bip144_len': len(segwit_raw) if segwit_raw else None})
    class_counters(rec, spec, model)
    for o, (obj, pb) in zip(spec['outputs'], built.payloads):
        if pb is None:
            continue
        if o['kind'] in ('claim', 'update', 'support_data'):
            rec.hit('payload.raw_bytes' if isinstance(obj, bytes) else
                    'payload.claim_object' if o['kind'] != 'support_data' else 'payload.support_object')
            if len(pb) in CORE_LEN and o['kind'] in ('claim', 'update'):
                rec.hit(f'class.len.claim_payload.{len(pb)}')

    # ---- B1: build through the library, serialise, compare with the reference encoding
    try:
        n_late = LATE_PARENTS[0]
        tx = lib_build(built)
        raw = tx.raw
        if LATE_PARENTS[0] > n_late:
            rec.hit('build.parent_completed_after_child_input', LATE_PARENTS[0] - n_late)
    except Exception as e:  # noqa: BLE001 - any exception while building a model inside the quantifier is judged
        site = lbry_site(e)
        if site.endswith('@harness'):
            raise
        rec.violation(f'C05/B1/build-or-serialize-raises/{site}',
                      f'building/serialising raised {e!r}; model: {summary(spec)}', {'model': spec, 'error': repr(e)}, case=vcase)
        return
    rec.hit('B1.checked')
    diff = R.first_difference(expected, raw, layout)
    if diff is not None:
        off, label, fclass = diff
        rec.violation(f'C05/B1/raw-differs/{fclass}',
                      f'tx.raw differs from the reference encoding at byte {off} ({label}): reference ..{ctx(expected, off)} '
                      f'library ..{ctx(raw, off)} (lengths {len(expected)}/{len(raw)}); model: {summary(spec)}',
                      {'offset': off, 'field': label, 'reference_raw': expected, 'library_raw': raw, 'model': spec}, case=vcase)
    # ---- B3 on the built transaction
    try:
        got_id, got_hash = tx.id, tx.hash
    except Exception as e:  # noqa: BLE001
        rec.violation(f'C05/B3/id-raises/{lbry_site(e)}', f'tx.id raised {e!r}; model: {summary(spec)}', {'model': spec}, case=vcase)
        got_id = got_hash = None
    if got_id is not None:
        rec.hit('B3.built_id_checked')
        if got_id != exp_id:
            rec.violation('C05/B3/id-mismatch/built',
                          f'tx.id = {got_id} but reverse(SHA256d(reference legacy encoding)) = {exp_id}; model: {summary(spec)}',
                          {'got': got_id, 'expected': exp_id, 'reference_raw': expected, 'library_raw': raw, 'model': spec}, case=vcase)
        rec.hit('B3.hash_checked')
        if got_hash != exp_hash or got_id != bytes(got_hash)[::-1].hex():
            rec.violation('C05/B3/hash-inconsistent/built',
                          f'tx.hash = {short(got_hash)}, tx.id = {got_id}, reference hash {exp_hash.hex()}; model: {summary(spec)}',
                          {'hash': got_hash, 'id': got_id, 'expected_hash': exp_hash, 'model': spec}, case=vcase)
    if known_txid:
        rec.hit('M.known_txid_checked')
        if got_id != known_txid:
            rec.violation('C05/M/known-txid-mismatch', f'main-net transaction {family}: tx.id = {got_id}, known id {known_txid}',
                          {'got': got_id, 'known': known_txid, 'model': spec}, case=vcase)
    # ---- B4: the reference decoder reads the library's bytes back to the model
    rec.hit('B4.checked')
    try:
        back = R.decode(raw, strict=True)
    except R.TxDecodeError as e:
        back = None
        rec.violation('C05/B4/ref-decode-fails', f'strict reference decoder rejects tx.raw: {e}; model: {summary(spec)}',
                      {'error': str(e), 'library_raw': raw, 'reference_raw': expected, 'model': spec}, case=vcase)
    if back is not None and (back.core() != model.core() or back.witnesses is not None):
        field = ('version' if back.version != model.version else 'inputs' if back.core()[1] != model.core()[1] else
                 'outputs' if back.core()[2] != model.core()[2] else 'locktime' if back.locktime != model.locktime else 'witness-marker')
        rec.violation(f'C05/B4/ref-decode-differs/{field}', f'reference decoder reads tx.raw as {back!r}, model is {model!r}; {summary(spec)}',
                      {'library_raw': raw, 'reference_raw': expected, 'model': spec}, case=vcase)
    # ---- B2: parse the library's own bytes back (and the reference's, when they differ)
    for which, data in (('own', raw),) + ((('reference', expected),) if raw != expected else ()):
        clause = 'B2' if which == 'own' else 'B2ref'
        try:
            with core.time_limit(20):
                parsed = Transaction(data)
        except Exception as e:  # noqa: BLE001
            rec.violation(f'C05/{clause}/parse-raises/{lbry_site(e)}',
                          f'Transaction({which} bytes) raised {e!r}; model: {summary(spec)}; raw={data[:60].hex()}..',
                          {'raw': data, 'model': spec, 'error': repr(e)}, case=vcase)
            continue
        rec.hit('B2.fields_checked')
        if parsed.is_segwit_flag:
            rec.log('B2.legacy_parsed_with_segwit_flag')
        compare_fields(parsed, model, clause, spec, rec, vcase, data)
        try:
            pid = parsed.id
            rec.hit('B3.parsed_id_checked')
            want = exp_id if which == 'reference' or raw == expected else R.sha256d(data)[::-1].hex()
            if pid != want:
                rec.violation('C05/B3/id-mismatch/parsed',
                              f'Transaction(raw).id = {pid}, reverse(SHA256d(raw)) = {want}; model: {summary(spec)}',
                              {'got': pid, 'expected': want, 'raw': data, 'model': spec}, case=vcase)
            parsed._reset()
            again = parsed.raw
            rec.hit('B2.reserialize_checked')
            if again != data:
                lay = []
                R.encode_legacy(model, lay)
                d = R.first_difference(data, again, lay if which == 'reference' or raw == expected else [])
                rec.violation(f'C05/{clause}/reserialize-differs/{d[2]}',
                              f'Transaction(raw)._reset().raw differs from raw at byte {d[0]} ({d[1]}): ..{ctx(data, d[0])} vs '
                              f'..{ctx(again, d[0])}; model: {summary(spec)}',
                              {'offset': d[0], 'raw': data, 'reserialized': again, 'model': spec}, case=vcase)
            elif parsed.id != want:
                rec.violation('C05/B3/id-mismatch/parsed-after-reset', f'id after _reset() = {parsed.id}, expected {want}',
                              {'raw': data, 'model': spec}, case=vcase)
        except Exception as e:  # noqa: BLE001
            site = lbry_site(e)
            if site.endswith('@harness'):
                raise
            rec.violation(f'C05/{clause}/reserialize-raises/{site}', f're-serialising the parsed transaction raised {e!r}; {summary(spec)}',
                          {'raw': data, 'model': spec, 'error': repr(e)}, case=vcase)
    # ---- B5: a second transaction spending every output of the finished one names it by the id of its FINAL bytes (added after seeded
    # break C05-H: outputs added before a later change kept an orphaned, stale reference)
    if raw == expected and nout <= 40:
        from lbry.wallet.transaction import Input, Output
        try:
            spendable = [n for n, o in enumerate(tx.outputs) if o.script.is_pay_pubkey_hash]      # what Input.spend accepts
            child = Transaction().add_inputs([Input.spend(tx.outputs[n]) for n in spendable]).add_outputs([Output.pay_pubkey_hash(1, bytes(20))])
            cm = R.decode(child.raw) if spendable else None
            got = [(i.prev_hash[::-1].hex(), i.prev_index) for i in cm.inputs] if spendable else None
        except Exception as e:  # noqa: BLE001
            site = lbry_site(e)
            if site.endswith('@harness'):
                raise
            rec.violation(f'C05/B5/spending-the-outputs-raises/{site}', f'spending the outputs of a built transaction raised {e!r}; {summary(spec)}',
                          {'model': spec, 'error': repr(e)}, case=vcase)
            got = None
        if got is not None:
            rec.hit('B5.child_outpoints_checked')
            want = [(exp_id, n) for n in spendable]
            if got != want:
                k = next(i for i in range(len(want)) if i >= len(got) or got[i] != want[i])
                rec.violation('C05/B5/child-names-parent-by-a-stale-id', f'a transaction spending output {k} of the built transaction names outpoint '
                              f'{got[k] if k < len(got) else None}, the parent\'s final bytes hash to {exp_id}; {summary(spec)}',
                              {'model': spec, 'got': got[:5], 'parent_id': exp_id}, case=vcase)
    # ---- S: BIP144 encoding of the same model
    if segwit_raw is not None:
        check_segwit(rec, spec, model, expected, exp_id, exp_hash, segwit_raw, vcase, layout)
    return tx


def check_segwit(rec, spec, model, expected, exp_id, exp_hash, segwit_raw, vcase, layout):
    from lbry.wallet.transaction import Transaction
    try:
        with core.time_limit(20):
            parsed = Transaction(segwit_raw)
    except Exception as e:  # noqa: BLE001
        rec.violation(f'C05/S-B2/parse-raises/{lbry_site(e)}',
                      f'Transaction(BIP144 bytes) raised {e!r}; model: {summary(spec)}; raw={segwit_raw[:60].hex()}..',
                      {'bip144_raw': segwit_raw, 'model': spec, 'error': repr(e)}, case=vcase)
        return
    rec.hit('S.B2.fields_checked')
    compare_fields(parsed, model, 'S-B2', spec, rec, vcase, segwit_raw)
    try:
        pid, phash = parsed.id, parsed.hash
        sans = parsed.raw_sans_segwit
    except Exception as e:  # noqa: BLE001
        site = lbry_site(e)
        if site.endswith('@harness'):
            raise
        rec.violation(f'C05/S-B3/id-raises/{site}', f'id of a parsed BIP144 transaction raised {e!r}; {summary(spec)}',
                      {'bip144_raw': segwit_raw, 'model': spec, 'error': repr(e)}, case=vcase)
        return
    rec.hit('S.B3.id_checked')
    if pid != exp_id or phash != exp_hash:
        wt = R.sha256d(segwit_raw)[::-1].hex()
        rec.violation('C05/S-B3/id-mismatch/segwit' + ('-is-wtxid' if pid == wt and wt != exp_id else ''),
                      f'Transaction(BIP144 bytes).id = {pid}; reverse(SHA256d(serialisation without witness)) = {exp_id}; '
                      f'hash over the bytes including witness = {wt}; model: {summary(spec)}',
                      {'got': pid, 'expected': exp_id, 'wtxid': wt, 'bip144_raw': segwit_raw, 'legacy_raw': expected, 'model': spec},
                      case=vcase)
    rec.hit('S.B3.sans_segwit_checked')
    d = R.first_difference(expected, sans, layout)
    if d is not None:
        rec.violation(f'C05/S-B3/raw-sans-segwit-differs/{d[2]}',
                      f'raw_sans_segwit of the parsed BIP144 transaction differs from the reference legacy encoding at byte {d[0]} '
                      f'({d[1]}): ..{ctx(expected, d[0])} vs ..{ctx(sans, d[0])}; model: {summary(spec)}',
                      {'offset': d[0], 'bip144_raw': segwit_raw, 'legacy_raw': expected, 'raw_sans_segwit': sans, 'model': spec}, case=vcase)
    # observed, not judged
    rec.log('segwit.flag_is_1' if parsed.is_segwit_flag == 1 else 'segwit.flag_not_1')
    flat = [it for st in model.witnesses for it in st]
    rec.log('segwit.witnesses_flat_match' if list(parsed.witnesses) == flat else 'segwit.witnesses_flat_differ')
    rec.hit('S.B2.raw_of_parsed_checked')
    if parsed.raw != segwit_raw:
        # "parsing the bytes back ... re-serialises to identical bytes": what a parsed transaction hands out as .raw (and what the wallet
        # database stores) is the bytes it was parsed from; for BIP144 bytes that includes marker, flag and witness stacks
        rec.violation('C05/S-B2/raw-of-parsed-transaction-differs-from-the-bytes-parsed/' + ('witness-stripped' if parsed.raw == expected else 'other'),
                      f'Transaction(BIP144 bytes).raw has {len(parsed.raw)} bytes, the bytes parsed had {len(segwit_raw)}; model: {summary(spec)}',
                      {'bip144_raw': segwit_raw, 'raw': parsed.raw, 'model': spec}, case=vcase)
    parsed._reset()
    rec.log('segwit.after_reset_raw_is_legacy' if parsed.raw == expected else
            'segwit.after_reset_raw_is_bip144' if parsed.raw == segwit_raw else 'segwit.after_reset_raw_other')


# ------------------------------------------------------------------------------ fixtures
_fixture_cache = {}


def load_fixtures():
    if 'tx' not in _fixture_cache:
        with open(FIXTURES) as f:
            _fixture_cache['tx'] = json.load(f)['transactions']
    return _fixture_cache['tx']


def fixture_spec(fx, rng=None):
    tx = R.decode(bytes.fromhex(fx['hex']))
    spec = {'version': tx.version, 'locktime': tx.locktime, 'inputs': [], 'outputs': []}
    for i in tx.inputs:
        if i.prev_hash == bytes(32):
            spec['inputs'].append({'kind': 'coinbase', 'index': i.prev_index, 'script': i.script.hex(), 'sequence': i.sequence})
        else:
            spec['inputs'].append({'kind': 'raw', 'hash': i.prev_hash.hex(), 'index': i.prev_index, 'script': i.script.hex(),
                                   'sequence': i.sequence})
    for o in tx.outputs:
        spec['outputs'].append({'kind': 'raw', 'amount': o.amount, 'script': o.script.hex()})
    if rng is not None:
        spec['witness'] = gen_witness(rng, len(tx.inputs), force_nonempty=True)
    return spec


def run_fixture(rec, fx, rng, seed):
    from lbry.wallet.transaction import Transaction
    raw = bytes.fromhex(fx['hex'])
    one = {'fam': 'fixture_one', 'name': fx['name'], 'seed': seed}
    # parse the main-net bytes directly first (the library never built them)
    ref_tx = R.decode(raw)
    try:
        with core.time_limit(20):
            parsed = Transaction(raw)
        rec.hit('M.fixture_checked')
        compare_fields(parsed, ref_tx, 'M-B2', fixture_spec(fx), rec, one, raw)
        pid = parsed.id
        if pid != R.txid(ref_tx) or (fx.get('known_txid') and pid != fx['known_txid']):
            rec.violation('C05/M/parsed-txid-mismatch', f'Transaction(main-net {fx["name"]}).id = {pid}, known/reference id '
                          f'{fx.get("known_txid") or R.txid(ref_tx)}', {'raw': raw, 'got': pid}, case=one)
        rec.hit('M.raw_of_parsed_checked')
        if parsed.raw != raw:
            rec.violation('C05/M-B2/raw-of-parsed-transaction-differs-from-the-bytes-parsed', f'main-net {fx["name"]}: Transaction(raw).raw has '
                          f'{len(parsed.raw)} bytes, the main-net bytes {len(raw)}', {'raw': raw, 'got': parsed.raw}, case=one)
        parsed._reset()
        if parsed.raw != raw:
            lay = []
            R.encode_legacy(ref_tx, lay)
            d = R.first_difference(raw, parsed.raw, lay)
            rec.violation(f'C05/M-B2/reserialize-differs/{d[2]}', f'main-net {fx["name"]}: _reset().raw differs from the main-net bytes at '
                          f'byte {d[0]} ({d[1]})', {'raw': raw, 'reserialized': parsed.raw}, case=one)
    except Exception as e:  # noqa: BLE001
        site = lbry_site(e)
        if site.endswith('@harness'):
            raise
        rec.violation(f'C05/M-B2/parse-raises/{site}', f'Transaction(main-net {fx["name"]}) raised {e!r}', {'raw': raw}, case=one)
    # then the full clause set with the fixture as model (raw kinds), legacy and with generated witnesses
    run_model(rec, fixture_spec(fx), 'fixture:' + fx['name'], fx.get('known_txid'))
    for _ in range(3):
        run_model(rec, fixture_spec(fx, rng), 'fixture+witness:' + fx['name'], fx.get('known_txid'))
        rec.hit('M.segwit_variant_checked')


def observe_outside_quantifier(rec):
    """zero-output / zero-input transactions and an unknown BIP144 flag: observed and logged, never judged"""
    from lbry.wallet.transaction import Transaction
    m = R.Tx(1, [R.TxIn(b'\x11' * 32, 0, b'\x51')], [], 0)
    raw = R.encode_legacy(m)
    try:
        t = Transaction(raw)
        ok = len(t.inputs) == 1 and len(t.outputs) == 0 and t.locktime == 0
        t._reset()
        outcome = 'ok' if ok and t.raw == raw else 'differs'
    except Exception as e:  # noqa: BLE001
        outcome = 'raises_' + type(e).__name__
    rec.log('outside.zero_outputs.roundtrip_' + outcome)
    m = R.Tx(1, [], [R.TxOut(5, b'\x51')], 0)
    raw = R.encode_legacy(m)
    try:
        t = Transaction(raw)
        same = len(t.inputs) == 0 and len(t.outputs) == 1 and t.outputs[0].amount == 5 and t.locktime == 0
        outcome = 'same' if same else 'differs'
    except Exception as e:  # noqa: BLE001
        outcome = 'raises_' + type(e).__name__
    rec.log('outside.zero_inputs.parse_' + outcome)
    m = R.Tx(2, [R.TxIn(b'\x22' * 32, 1, b'')], [R.TxOut(7, b'\x51')], 9, witnesses=[[b'\x01']])
    raw = bytearray(R.encode_bip144(m))
    raw[5] = 2          # flag 0x02: not defined by BIP144
    try:
        t = Transaction(bytes(raw))
        outcome = 'accepted_id_' + ('legacy' if t.id == R.txid(m) else 'other')
    except Exception as e:  # noqa: BLE001
        outcome = 'raises_' + type(e).__name__
    rec.log('outside.bip144_flag_2.' + outcome)


def verify_fixture_signatures():
    """reference SIGHASH_ALL preimage vs real main-net signatures, judged by the pure-Python ecdsa library"""
    import ecdsa
    from ecdsa.util import sigdecode_der
    verified = 0
    for fx in load_fixtures():
        tx = R.decode(bytes.fromhex(fx['hex']))
        for k, txin in enumerate(tx.inputs):
            if txin.prev_hash == bytes(32):
                continue
            items, p, s = [], 0, txin.script
            while p < len(s):
                n = s[p]
                p += 1
                if n == 0x4c:
                    n = s[p]
                    p += 1
                items.append(s[p:p + n])
                p += n
            sig, pub = items[0], items[1]
            code = items[2] if len(items) == 3 else R.p2pkh(R.hash160(pub))
            vk = ecdsa.VerifyingKey.from_string(pub, curve=ecdsa.SECP256k1)
            if not vk.verify_digest(sig[:-1], R.sighash_all_digest(tx, k, code), sigdecode=sigdecode_der):
                raise AssertionError(f'reference SIGHASH_ALL preimage does not verify main-net signature of {fx["name"]} input {k}')
            verified += 1
    return verified


def shard_setup(rec, tier):
    """the reference is itself cross-checked against fixed public vectors; a mismatch is a harness error"""
    n = R.selftest()
    known = 0
    for fx in load_fixtures():
        raw = bytes.fromhex(fx['hex'])
        tx = R.decode(raw)
        if R.encode_legacy(tx) != raw:
            raise AssertionError('reference does not round-trip main-net fixture ' + fx['name'])
        if fx.get('known_txid'):
            if R.txid(tx) != fx['known_txid']:
                raise AssertionError('reference txid differs from the known main-net id of ' + fx['name'])
            known += 1
    sigs = verify_fixture_signatures()
    rec.note('reference_selftest', {'public_vector_assertions': n, 'mainnet_fixtures': len(load_fixtures()),
                                    'mainnet_known_txids_matched': known, 'mainnet_signatures_verified_over_ref_preimage': sigs})


# ------------------------------------------------------------------------------ execute
def execute(rec, case):
    boot.import_lbry()
    fam = case['fam']
    if fam == 'model':
        run_model(rec, case['model'], case.get('family', 'replay'), case.get('known_txid'))
        return
    rng = random.Random(case.get('seed', 0))
    if fam == 'fixtures':
        for fx in load_fixtures():
            run_fixture(rec, fx, rng, case.get('seed', 0))
        observe_outside_quantifier(rec)
    elif fam == 'fixture_one':
        run_fixture(rec, [f for f in load_fixtures() if f['name'] == case['name']][0], rng, case.get('seed', 0))
    elif fam == 'len':
        run_model(rec, gen_len_model(rng, case['place'], case['L']), f"len:{case['place']}:{case['L']}")
    elif fam == 'count':
        run_model(rec, gen_model(rng, nin=case['nin'], nout=case['nout'], segwit=True), f"count:{case['nin']}x{case['nout']}")
    elif fam == 'u32':
        for v in case['values']:
            spec = gen_model(rng, nin=rng.choice([1, 2, 3]), segwit=True)
            f = case['field']
            if f in ('version', 'locktime'):
                spec[f] = v
            else:
                k = rng.randrange(len(spec['inputs']))
                kind = rng.choice(['raw', 'p2pkh', 'p2pk', 'coinbase', 'from_id', 'multisig', 'timelock_gen'] + (['spend', 'timelock'] if f == 'sequence' else []))
                spec['inputs'][k] = gen_input(rng, kind, **({'sequence': v} if f == 'sequence' else {'index': v}))
            run_model(rec, spec, f'u32:{f}:{v:#x}')
    elif fam == 'amount':
        spec = gen_model(rng, nin=rng.choice([1, 2]), nout=len(case['values']), segwit=True)
        for o, v in zip(spec['outputs'], case['values']):
            if o['kind'] == 'purchase':
                o.update(gen_output(rng, 'p2pkh'))
            o['amount'] = v
        run_model(rec, spec, 'amount')
    elif fam == 'rand':
        for _ in range(case['count']):
            if rec.out_of_time():
                break
            run_model(rec, gen_model(rng), 'rand')
    elif fam == 'flow':
        from vlib import walletfx
        walletfx.run(_flow(rec, case), timeout=600)
    else:
        raise ValueError(fam)


# ------------------------------------------------------------------------------ transactions the wallet itself builds (added after
# seeded break C05-B: caches of the serialisation must follow outputs that are edited between building and signing)
async def _flow(rec, case):
    """Transaction.create / claim_create / support / pay under three funding situations (change returned, surplus below dust, funded
    exactly), then - as the daemon's publish flow does - the claim output is edited and its script regenerated, sizes/ids are read in
    between, the transaction is signed; finally what the OBJECT says (inputs, outputs, scripts, amounts) must be what tx.raw encodes."""
    from vlib import walletfx
    from lbry.wallet import Transaction, Output, Input
    from lbry.schema.claim import Claim
    r = random.Random(case['seed'])
    random.seed(case['seed'])
    rate = r.choice([1, 50, 1000])
    fx = await walletfx.Fx.open(n_accounts=1, fee_per_byte=rate)
    try:
        acc = fx.accounts[0]
        addrs = await fx.addresses(acc)
        for funding in ['change', 'dust_surplus', 'exact', 'exact', 'two_inputs_exact']:
            for kind in ['claim', 'claim_then_channel_sign', 'support', 'pay']:
                name = 'n' * r.choice([1, 10, 60])
                claim = Claim()
                claim.stream.title = 't' * r.choice([0, 5, 200])
                amount = r.randrange(10 ** 5, 10 ** 7)
                holding = addrs[r.randrange(len(addrs))]
                if kind.startswith('claim'):
                    out = Output.pay_claim_name_pubkey_hash(amount, name, claim, fx.ledger.address_to_hash160(holding))
                elif kind == 'support':
                    out = Output.pay_support_pubkey_hash(amount, name, r.randbytes(20).hex(), fx.ledger.address_to_hash160(holding))
                else:
                    out = Output.pay_pubkey_hash(amount, r.randbytes(20))
                cost = (10 + 8 + 1 + len(out.script.source) + (2 if len(out.script.source) >= 253 else 0)) * rate + amount
                nin = 2 if funding == 'two_inputs_exact' else 1
                need = cost + nin * 148 * rate
                extra = {'change': 10 ** 7, 'dust_surplus': r.randrange(1, 900), 'exact': 0, 'two_inputs_exact': 0}[funding]
                per = (need + extra) // nin
                amts = [per] * (nin - 1) + [need + extra - per * (nin - 1)]
                _, txos = await fx.fund([(0, 0, r.randrange(20), a) for a in amts], height=10)
                tx = await Transaction.create([Input.spend(t) for t in txos], [out], [acc], acc, sign=False)
                _ = tx.size if r.random() < 0.5 else None            # reading sizes / ids in between is legal and fills caches
                if kind.startswith('claim'):
                    txo = tx.outputs[0]
                    txo.claim.stream.title = 'edited ' * r.choice([1, 3, 40])
                    txo.claim.stream.source.sd_hash = r.randbytes(48).hex()
                    txo.script.generate()
                    if r.random() < 0.5:
                        _ = tx.id
                        txo.claim.stream.description = 'second edit'
                        txo.script.generate()
                await tx.sign([acc])
                rec.hit('flow.' + funding)
                rec.hit('flow.kind.' + kind)
                raw = tx.raw
                vcase = {'fam': 'flow', 'seed': case['seed']}
                try:
                    dec = R.decode(raw, strict=True)
                except Exception as e:  # noqa
                    rec.violation('C05/B4/flow/reference-cannot-decode', f'{kind}/{funding}: reference decoder rejects tx.raw: {e!r}', {'raw': raw}, case=vcase)
                    continue
                rec.hit('B2.flow_object_vs_raw_checked')
                want_outs = [(o.amount, bytes(o.script.source)) for o in tx.outputs]
                got_outs = [(o.amount, bytes(o.script)) for o in dec.outputs]
                want_ins = [(i.txo_ref.tx_ref.hash, i.txo_ref.position, bytes(i.script.source), i.sequence) for i in tx.inputs]
                got_ins = [(i.prev_hash, i.prev_index, bytes(i.script), i.sequence) for i in dec.inputs]
                if want_outs != got_outs:
                    k = [a == b for a, b in zip(want_outs, got_outs)].index(False) if len(want_outs) == len(got_outs) else -1
                    rec.violation('C05/B2/flow/raw-does-not-encode-the-objects-outputs',
                                  f'{kind}/{funding} (rate {rate}): tx.raw encodes an output that differs from tx.outputs[{k}] '
                                  f'(edited after building, before signing)', {'kind': kind, 'funding': funding, 'index': k,
                                                                               'object_script': want_outs[k][1] if k >= 0 else None,
                                                                               'raw_script': got_outs[k][1] if k >= 0 else None}, case=vcase)
                    continue
                if want_ins != got_ins:
                    rec.violation('C05/B2/flow/raw-does-not-encode-the-objects-inputs', f'{kind}/{funding}: tx.raw inputs differ from tx.inputs', {}, case=vcase)
                    continue
                if tx.id != R.txid(dec):
                    rec.violation('C05/B3/flow/txid-not-hash-of-raw', f'{kind}/{funding}: tx.id {tx.id} is not the hash of the legacy encoding of tx.raw '
                                  f'{R.txid(dec)}', {}, case=vcase)
                    continue
                again = Transaction(raw)
                if [bytes(o.script.source) for o in again.outputs] != [x[1] for x in want_outs] or again.id != tx.id:
                    rec.violation('C05/B2/flow/parse-back-differs', f'{kind}/{funding}: Transaction(tx.raw) differs from the object', {}, case=vcase)
                rec.case(['flow', kind, funding, rate, len(raw) // 50], sample={'family': 'flow', 'kind': kind, 'funding': funding,
                                                                                'rate': rate, 'inputs': len(tx.inputs), 'outputs': len(tx.outputs)}
                         if funding == 'exact' and kind == 'claim' else None)
    finally:
        await fx.close()

#!/usr/bin/env python3
"""Regenerates the two tables of DESIGN.md section 5 (5.1 repaired / 5.2 open) from known_findings.json, between the marker comments
<!-- findings:fixed:begin/end --> and <!-- findings:open:begin/end -->.  The file known_findings.json stays the source of truth."""
import json, os, re, subprocess
HERE = os.path.dirname(os.path.dirname(os.path.abspath(__file__)))
k = json.load(open(os.path.join(HERE, 'known_findings.json')))['findings']


def esc(s):
    return s.replace('|', '\\|').replace('\n', ' ')


order = [l.split()[0][:7] for l in subprocess.run(['git', '-C', '/repo', 'log', '--reverse', '--format=%h %s'], capture_output=True, text=True).stdout.splitlines()
         if ' fix:' in ' ' + l.split(' ', 1)[1][:5]]
groups = {}
for f in k:
    if f['status'] == 'fixed':
        groups.setdefault((f['property'], f.get('commit', '?')), []).append(f)


def pos(c):
    c = c.split('+')[0][:7]
    return order.index(c) if c in order else 999


rows = ['| property | commit(s) | what failed | mechanism keys |', '|---|---|---|---|']
for (prop, commit), fs in sorted(groups.items(), key=lambda x: pos(x[0][1])):
    what, keys = fs[0]['what_fails'], [f['key'] for f in fs]
    ks = ', '.join(f'`{x}`' for x in keys[:3]) + (f' (+{len(keys) - 3} more)' if len(keys) > 3 else '')
    rows.append(f'| {prop} | {commit} | {esc(what)} | {esc(ks)} |')
fixed_md = '\n'.join(rows)
rows = ['| property | mechanism key | what fails (input / history) | why not repaired here |', '|---|---|---|---|']
for f in k:
    if f['status'] == 'open':
        rows.append(f"| {f['property']} | `{esc(f['key'])}` | {esc(f['what_fails'])} | {esc(f.get('why_not_fixed', ''))} |")
open_md = '\n'.join(rows)
p = os.path.join(HERE, 'DESIGN.md')
s = open(p).read()
for name, md in (('fixed', fixed_md), ('open', open_md)):
    pat = re.compile(r'(<!-- findings:%s:begin -->\n).*?(\n<!-- findings:%s:end -->)' % (name, name), re.S)
    if not pat.search(s):
        if name == 'open':       # the open table carries a hand-written "why not repaired" column and has no markers
            continue
        raise SystemExit('marker for %s missing in DESIGN.md' % name)
    s = pat.sub(lambda m: m.group(1) + md + m.group(2), s)
open(p, 'w').write(s)
print('fixed groups:', len(groups), 'open:', sum(1 for f in k if f['status'] == 'open'))

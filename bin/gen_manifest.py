#!/usr/bin/env python3
"""Regenerates MANIFEST.json from the table below (keeps it valid at all times)."""
import json, os
HERE = os.path.dirname(os.path.dirname(os.path.abspath(__file__)))
props = [json.loads(l) for l in open(os.path.join(HERE, 'properties.jsonl'))]
# id -> (level, technique, level text, level note)
CLAIMED = {}
exec(open(os.path.join(HERE, 'bin', 'claims.py')).read())
checks, na = [], []
for p in props:
    i = p['id']
    if i in CLAIMED:
        c = CLAIMED[i]
        checks.append({
            'property_id': i,
            'quick_cmd': f'bin/check {i} --tier quick',
            'thorough_cmd': f'bin/check {i} --tier thorough',
            'evidence_file': f'/verif/evidence/{i}.json',
            'replay_cmd_template': f'bin/check {i} --replay {{path}}',
            'engine': 'runtime-monitor',
            'level_claimed': {'category': c['level'], 'text': c['text'], 'design_ref': f'DESIGN.md §4 {i}'},
            'level_note': c['note'],
            'technique': c['technique'],
        })
    else:
        na.append({'property_id': i, 'reason': NOT_YET.get(i, 'check not built yet in this round (runtime monitoring applies; see DESIGN.md §4)')})
m = {
    'version': 1,
    'setup_cmd': 'bin/setup',
    'hooks': {'guard': 'LBRY_SDK_VERIF', 'enable': 'checks export LBRY_SDK_VERIF=1; no source hooks are needed so far (all observation points are wrapped from outside)',
              'baseline_off_cmd': 'bin/baseline', 'source_commits': [], 'add_only': True},
    'engines': [{'name': 'runtime-monitor', 'path': 'vlib/core.py', 'serves_properties': sorted(CLAIMED),
                 'kind_free_text': 'sharded workload generator + monitors (history/model, invariant hooks, differential oracles) running the real lbry code under /venv/bin/python'}],
    'checks': checks,
    'not_applicable': na,
    'notes': 'exit 0 held / 1 VIOLATION / 2 inconclusive. known_findings.json lists fixed and open findings by mechanism key.',
}
json.dump(m, open(os.path.join(HERE, 'MANIFEST.json'), 'w'), indent=1)
print('claimed', sorted(CLAIMED), 'not claimed', [x['property_id'] for x in na])

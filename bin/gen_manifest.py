#!/usr/bin/env python3
"""Regenerates MANIFEST.json from the table below (keeps it valid at all times)."""
import json, os
HERE = os.path.dirname(os.path.dirname(os.path.abspath(__file__)))
props = [json.loads(l) for l in open(os.path.join(HERE, 'properties.jsonl'))]
# id -> (level, technique, level text, level note)
CLAIMED = {}
exec(open(os.path.join(HERE, 'bin', 'claims.py')).read())
# what five rounds of independently written breaks added to each workload (DESIGN.md 6.3); the RULE string in evidence/<id>.json is the
# authoritative description of the families a run explored
ADDENDUM = {
 'C01': ' Added later: second download on the same blob object, peer-claimed lengths (as the client sets them), writers that deliver then hang up, honest retry after failed attempts under wrong claimed lengths, same-peer reopen in one loop iteration, a second different announcement while a copy is in flight.',
 'C02': ' Added later: the download side - valid foreign descriptors with hostile names driven through the real ManagedStream (save_file / start / reload histories), saved file and stored file row observed.',
 'C03': ' Added later: liquidation and round-amount coin classes, exact-cover sweeps, exhausted change chain, received purchase payments, inputs held by kept builds tracked by the harness while stored transactions are saved again.',
 'C04': ' Added later: channels and claims re-read from the wallet database (dbreload), signing-key rotation following the daemon sequence (A6), independently signed v1/v2 claims in all four claim templates (A5).',
 'C05': ' Added later: create / edit / sign flows, raw fidelity of every parsed transaction (also BIP144), child transactions spending the outputs of a built parent, output-id touches during incremental builds, a time limit around every library parse.',
 'C06': ' Added later: respelled mnemonics and equivalent passphrase forms, several accounts in one ledger, saved gap settings through export / Wallet.merge / start-up save_max_gap / restore.',
 'C07': ' Added later: proof-of-work sliver between compact and full-precision target, 2160-header chains with damage deeper than 1000, over-long checkpoint replies, several sessions on one real file, other encodings of the right bits, replayed replaced branch, several checkpointed chunks with holes and cuts across restarts, previous hash one bit off.',
 'C08': ' Added later: re-use of verified objects, header replaced while a proof request is outstanding, cached lookups across reorganisations (also with a batch in flight and a tip replaced by a subscription header), planted work-less header, witness-serialised transactions, the database record after a reorganisation.',
 'C09': ' Added later: streaming delivery with overlapping notifications and slow server replies, header lag, own payments with reservations released (Y7), connection loss and reconnect.',
 'C10': ' Added later: BlobDownloader races and pairs on one blob object, orphan-file blobs, blank-heavy content, request cap vs fragmentation (X7), slow links through the real BlobServer with unequal timeouts (X8), relay by the downloading node (X9), stream downloads over several blobs and peers (X10).',
 'C11': ' Added later: operations applied while an add_peer awaits its probe, removals naming a known id at another address, the node\'s own failed requests to stale triples.',
 'C12': ' Added later: re-announcement renewal, searcher that is itself an announcer, expired record on the searcher with a fresh announcement elsewhere, records arriving during paging, repeated-page liar, lookups through Node.accumulate_peers, a node joining after the announcements, judged follow-ups after lookups.',
 'C13': ' Added later: a later save after an interrupted one, wallet directory on another device than the temp directory with builtin open / sendfile traced, two password changes in one session, sync blobs with foreign scrypt cost parameters through unpack and Wallet.merge.',
 'C14': ' Added later: address-history re-saves while builds are held, builds without outputs on pools with barely spendable coins, reconnects, failed / cancelled / timed-out broadcasts through broadcast_or_release, builds funded from a subset of the accounts, debug logging enabled.',
 'C15': ' Added later: generated scripts carried in a transaction, serialised and re-read (G5) at script-length and count boundaries 252..254 and 65535/65536.',
 'C16': ' Added later: signed payload of legacy claims, zero legacy fees, multi-step re-assembly histories through the wire format (M6).',
 'C17': ' Added later: long multi-byte method names, error texts with non-ASCII characters on the wire.',
 'C18': ' Added later: blobs opened but never completed, stop()/setup() of the same manager, files above the blob size limit, symlinked blob files, daemon-order start with the real StreamManager on claimed streams with missing sd files.',
 'C19': ' Added later: two start-ups with the blob directory away and back, ownership as declared through the API (not the is_mine column), finished rows whose file is gone (interval reading, U7), interrupted passes (U8).',
 'C20': ' Added later: compatibility characters that NFKC folds onto digits or the full stop.',
}
checks, na = [], []
for p in props:
    i = p['id']
    if i in CLAIMED:
        c = CLAIMED[i]
        checks.append({
            'property_id': i,
            'quick_cmd': f'bin/check {i} --tier quick',
            'thorough_cmd': f'bin/check {i} --tier thorough',
            'evidence_file': f'/verif/evidence/{i}.json',
            'replay_cmd_template': f'bin/check {i} --replay {{path}}',
            'engine': 'runtime-monitor',
            'level_claimed': {'category': c['level'], 'text': c['text'] + ADDENDUM.get(i, ''), 'design_ref': f'DESIGN.md §4 {i}, §0 (deviations), §6.3 (families added after seeded breaks)'},
            'level_note': c['note'],
            'technique': c['technique'],
        })
    else:
        na.append({'property_id': i, 'reason': NOT_YET.get(i, 'check not built yet in this round (runtime monitoring applies; see DESIGN.md §4)')})
m = {
    'version': 1,
    'setup_cmd': 'bin/setup',
    'hooks': {'guard': 'LBRY_SDK_VERIF', 'enable': 'checks export LBRY_SDK_VERIF=1; no source hooks are needed so far (all observation points are wrapped from outside)',
              'baseline_off_cmd': 'bin/baseline', 'source_commits': [], 'add_only': True},
    'engines': [{'name': 'runtime-monitor', 'path': 'vlib/core.py', 'serves_properties': sorted(CLAIMED),
                 'kind_free_text': 'sharded workload generator + monitors (history/model, invariant hooks, differential oracles) running the real lbry code under /venv/bin/python'}],
    'checks': checks,
    'not_applicable': na,
    'notes': 'exit 0 held / 1 VIOLATION / 2 inconclusive. known_findings.json lists fixed and open findings by mechanism key.',
}
json.dump(m, open(os.path.join(HERE, 'MANIFEST.json'), 'w'), indent=1)
print('claimed', sorted(CLAIMED), 'not claimed', [x['property_id'] for x in na])

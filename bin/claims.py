NOT_YET = {}
CLAIMED['C20'] = dict(
    level='exploration', technique='runtime differential monitor: real dewies_to_lbc/lbc_to_dewies vs exact integer arithmetic and a hand-written grammar recogniser over enumerated windows + random values',
    text='Every integer in dense windows around each power of ten, 2^53, digit-length boundaries and the supply cap (both signs) plus seeded random amounts, and tens of thousands of near-grammar strings, are pushed through the real functions and compared with an exact oracle. Exploration is the right level: the functions are pure, the input space is huge, and the defect classes (float rounding, regex anchoring) show up densely in those windows.',
    note='oracle: Python integer divmod and Decimal; grammar recogniser written for the harness. Values outside the windows/samples are not covered.')

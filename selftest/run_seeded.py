#!/usr/bin/env python3
"""Evaluates the independently written seeded breaks under /verif/seeded/<ID>-<name>/ (patch.diff, demo.py, meta.json).

For each: scratch copy of /repo's working tree (outside /repo and /verif) -> demo must PASS on the clean copy ->
apply patch -> repository baseline (39 tests) must still pass -> demo must FAIL -> `bin/check <ID> --tier quick` with
VERIF_REPO=<scratch> must exit 1 with a VIOLATION line (evidence redirected into the scratch dir).  With --thorough the
thorough tier is tried for those the quick tier missed.  Results: seeded/RESULTS.json + a table on stdout.
usage: run_seeded.py [ID-or-prefix ...] [--thorough] [--seed N] [--jobs N]"""
import json, os, shutil, subprocess, sys, tempfile, time
HERE = os.path.dirname(os.path.dirname(os.path.abspath(__file__)))
SEEDED = os.path.join(HERE, 'seeded')


def scratch_copy():
    base = '/dev/shm' if os.path.isdir('/dev/shm') else tempfile.gettempdir()
    d = tempfile.mkdtemp(prefix='verif-seed-', dir=base)
    subprocess.run('rsync -a --exclude __pycache__ --exclude .git --exclude docs /repo/ %s/' % d, shell=True, check=True)
    return d


def run_demo(d, demo_src, prop):
    src = open(demo_src).read().replace(f'/tmp/seed/{prop}', d).replace('/tmp/seed/shims', os.path.join(HERE, 'shims'))
    path = os.path.join(d, '_demo.py')
    open(path, 'w').write(src)
    env = dict(os.environ, PROTOCOL_BUFFERS_PYTHON_IMPLEMENTATION='python', PYTHONPATH=f'{d}:{os.path.join(HERE, "shims")}',
               PYTHONDONTWRITEBYTECODE='1')
    try:
        p = subprocess.run(['/venv/bin/python', '-B', path], cwd=d, env=env, capture_output=True, text=True, timeout=600)
        return p.returncode, (p.stdout + p.stderr)[-400:]
    except subprocess.TimeoutExpired:
        return 'timeout', ''


def evaluate(name, thorough=False, seed='0'):
    sd = os.path.join(SEEDED, name)
    prop = name.split('-')[0]
    res = {'name': name, 'property': prop}
    d = scratch_copy()
    try:
        rc, out = run_demo(d, os.path.join(sd, 'demo.py'), prop)
        res['demo_on_clean'] = rc
        p = subprocess.run(['git', 'apply', '--whitespace=nowarn', os.path.join(sd, 'patch.diff')], cwd=d, capture_output=True, text=True)
        if p.returncode != 0:
            p = subprocess.run(['patch', '-p1', '-s', '-i', os.path.join(sd, 'patch.diff')], cwd=d, capture_output=True, text=True)
        res['patch_applies'] = p.returncode == 0
        if not res['patch_applies']:
            res['error'] = (p.stdout + p.stderr)[-300:]
            return res
        b = subprocess.run([os.path.join(HERE, 'bin', 'baseline')], env=dict(os.environ, VERIF_REPO=d), capture_output=True, text=True)
        res['baseline_passes'] = b.returncode == 0
        rc, out = run_demo(d, os.path.join(sd, 'demo.py'), prop)
        res['demo_with_patch'] = rc
        res['demo_output_tail'] = out[-200:]
        also = []
        try:
            also = json.load(open(os.path.join(sd, 'meta.json'))).get('also_run', [])
        except Exception:
            pass
        for other in also:
            ev = os.path.join(d, '_evidence_' + other)
            os.makedirs(os.path.join(ev, 'replay'), exist_ok=True)
            env = dict(os.environ, VERIF_REPO=d, VERIF_EVIDENCE_DIR=ev, VERIF_SEED=seed)
            p2 = subprocess.run([os.path.join(HERE, 'bin', 'check'), other, '--tier', 'quick'], env=env, capture_output=True, text=True)
            keys = [l.strip()[:220] for l in p2.stdout.splitlines() if l.strip().startswith('key=')]
            res['also_' + other] = {'exit': p2.returncode, 'keys': keys[:3], 'verdict': {0: 'MISSED', 1: 'CAUGHT', 2: 'INCONCLUSIVE'}.get(p2.returncode)}
        for tier in (['quick'] + (['thorough'] if thorough else [])):
            ev = os.path.join(d, '_evidence')
            os.makedirs(os.path.join(ev, 'replay'), exist_ok=True)
            env = dict(os.environ, VERIF_REPO=d, VERIF_EVIDENCE_DIR=ev, VERIF_SEED=seed)
            t = time.time()
            p = subprocess.run([os.path.join(HERE, 'bin', 'check'), prop, '--tier', tier], env=env, capture_output=True, text=True)
            keys = [l.strip()[:220] for l in p.stdout.splitlines() if l.strip().startswith('key=')]
            res[tier] = {'exit': p.returncode, 'wall_s': round(time.time() - t, 1), 'keys': keys[:4],
                         'verdict': {0: 'MISSED', 1: 'CAUGHT', 2: 'INCONCLUSIVE'}.get(p.returncode, 'rc%d' % p.returncode)}
            if p.returncode == 1:
                break
        return res
    finally:
        shutil.rmtree(d, ignore_errors=True)


def main():
    args = [a for a in sys.argv[1:] if not a.startswith('--')]
    seed = '0'
    if '--seed' in sys.argv:
        seed = sys.argv[sys.argv.index('--seed') + 1]
        args = [a for a in args if a != seed]
    if '--jobs' in sys.argv:
        jv = sys.argv[sys.argv.index('--jobs') + 1]
        args = [a for a in args if a != jv]
    names = sorted(n for n in os.listdir(SEEDED) if os.path.isfile(os.path.join(SEEDED, n, 'patch.diff')))
    if args:
        names = [n for n in names if any(n.startswith(a) for a in args)]
    rpath = os.path.join(SEEDED, 'RESULTS.json')
    def load():
        try:
            return json.load(open(rpath)) if os.path.exists(rpath) else {}
        except ValueError:
            return {}
    allres = load()
    jobs = 1
    if '--jobs' in sys.argv:
        jobs = int(sys.argv[sys.argv.index('--jobs') + 1])
    if jobs > 1:
        from concurrent.futures import ThreadPoolExecutor
        pool = ThreadPoolExecutor(jobs)
        results = pool.map(lambda n: (n, evaluate(n, '--thorough' in sys.argv, seed)), names)
    else:
        results = ((n, evaluate(n, '--thorough' in sys.argv, seed)) for n in names)
    for n, r in results:
        allres[n] = r
        last = r.get('thorough') or r.get('quick') or {}
        print(f"{n:12s} demo clean={r.get('demo_on_clean')} patched={r.get('demo_with_patch')} baseline={'ok' if r.get('baseline_passes') else 'BROKEN'} "
              + ''.join(f" [{k[5:]}: {v['verdict']}]" for k, v in r.items() if k.startswith('also_')) +
              f" check={last.get('verdict')} ({'thorough' if r.get('thorough') else 'quick'}, {last.get('wall_s')}s) {'; '.join(last.get('keys', []))[:160]}", flush=True)
        allres = dict(load(), **{n: r})          # other evaluations may be running at the same time: merge, write atomically
        tmp = '%s.%d.tmp' % (rpath, os.getpid())
        json.dump(allres, open(tmp, 'w'), indent=1, sort_keys=True)
        os.replace(tmp, rpath)
    return 0


if __name__ == '__main__':
    sys.exit(main())

#!/usr/bin/env python3
"""copies a sub-agent's deliverables <src>/<ID>/{A,B}.diff, demo_{A,B}.py, meta.json into seeded/<ID>-<name>/
usage: import_seeded.py [--round 2] ID...   (round 1: /tmp/seed/out, names A,B; round 2: /tmp/seed2/out, names C,D; round 3: /tmp/seed3/out, names E,F)"""
import json, os, shutil, sys
HERE = os.path.dirname(os.path.dirname(os.path.abspath(__file__)))
args = sys.argv[1:]
rnd = 1
if args and args[0] == '--round':
    rnd = int(args[1]); args = args[2:]
SRC = {1: '/tmp/seed/out', 2: '/tmp/seed2/out', 3: '/tmp/seed3/out', 4: '/tmp/seed4/out', 5: '/tmp/seed5/out', 6: '/tmp/seed6/out'}[rnd]
NAMES = {1: {'A': 'A', 'B': 'B'}, 2: {'A': 'C', 'B': 'D'}, 3: {'A': 'E', 'B': 'F'}, 4: {'A': 'G', 'B': 'H'}, 5: {'A': 'I', 'B': 'J'}, 6: {'A': 'K', 'B': 'L'}}[rnd]
for prop in args:
    src = f'{SRC}/{prop}'
    meta = json.load(open(os.path.join(src, 'meta.json'))) if os.path.exists(os.path.join(src, 'meta.json')) else {'changes': []}
    for name in 'AB':
        if not os.path.exists(os.path.join(src, f'{name}.diff')):
            continue
        dst = os.path.join(HERE, 'seeded', f'{prop}-{NAMES[name]}')
        os.makedirs(dst, exist_ok=True)
        shutil.copy(os.path.join(src, f'{name}.diff'), os.path.join(dst, 'patch.diff'))
        demo = open(os.path.join(src, f'demo_{name}.py')).read().replace('/tmp/seed2/', '/tmp/seed/').replace('/tmp/seed3/', '/tmp/seed/').replace('/tmp/seed4/', '/tmp/seed/').replace('/tmp/seed5/', '/tmp/seed/').replace('/tmp/seed6/', '/tmp/seed/')
        open(os.path.join(dst, 'demo.py'), 'w').write(demo)
        ch = [c for c in meta.get('changes', []) if c.get('name') == name]
        json.dump({'property': prop, 'name': NAMES[name], 'round': rnd,
                   'author': 'fresh sub-agent given only the property record' + (' and a list of the changes already tried in the earlier rounds' if rnd >= 2 else '') + ' and a scratch worktree',
                   'claimed_by_author': ch[0] if ch else {}}, open(os.path.join(dst, 'meta.json'), 'w'), indent=1)
        print('imported', dst)

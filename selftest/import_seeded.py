#!/usr/bin/env python3
"""copies a sub-agent's deliverables /tmp/seed/out/<ID>/{A,B}.diff, demo_{A,B}.py, meta.json into seeded/<ID>-<A|B>/"""
import json, os, shutil, sys
HERE = os.path.dirname(os.path.dirname(os.path.abspath(__file__)))
for prop in sys.argv[1:]:
    src = f'/tmp/seed/out/{prop}'
    meta = json.load(open(os.path.join(src, 'meta.json'))) if os.path.exists(os.path.join(src, 'meta.json')) else {'changes': []}
    for name in 'AB':
        if not os.path.exists(os.path.join(src, f'{name}.diff')):
            continue
        dst = os.path.join(HERE, 'seeded', f'{prop}-{name}')
        os.makedirs(dst, exist_ok=True)
        shutil.copy(os.path.join(src, f'{name}.diff'), os.path.join(dst, 'patch.diff'))
        shutil.copy(os.path.join(src, f'demo_{name}.py'), os.path.join(dst, 'demo.py'))
        ch = [c for c in meta.get('changes', []) if c.get('name') == name]
        json.dump({'property': prop, 'name': name, 'author': 'fresh sub-agent given only the property record and a scratch worktree',
                   'claimed_by_author': ch[0] if ch else {}}, open(os.path.join(dst, 'meta.json'), 'w'), indent=1)
        print('imported', dst)

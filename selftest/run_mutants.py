#!/usr/bin/env python3
"""Mutation self-test (DESIGN §6): for each selftest/mutants/<ID>-*.diff copy /repo's
tracked tree to a scratch dir outside /repo and /verif, apply the diff, run the check
with VERIF_REPO=<scratch> (evidence redirected to the scratch dir), expect exit 1 with a
VIOLATION line, delete the copy.   usage: run_mutants.py [ID ...] [--tier quick] [--baseline]"""
import glob, os, shutil, subprocess, sys, tempfile, time, json
HERE = os.path.dirname(os.path.dirname(os.path.abspath(__file__)))


def scratch_copy():
    base = '/dev/shm' if os.path.isdir('/dev/shm') else tempfile.gettempdir()
    d = tempfile.mkdtemp(prefix='verif-mut-', dir=base)
    subprocess.run('rsync -a --exclude __pycache__ --exclude .git --exclude docs /repo/ %s/' % d, shell=True, check=True)
    return d


def run_one(diff, tier='quick', seed='0'):
    prop = os.path.basename(diff).split('-')[0]
    d = scratch_copy()
    try:
        p = subprocess.run(['patch', '-p1', '-s', '-d', d, '-i', diff], capture_output=True, text=True)
        if p.returncode != 0:
            return prop, 'PATCH-FAILED', p.stdout + p.stderr, 0
        if '--baseline' in sys.argv:
            b = subprocess.run([os.path.join(HERE, 'bin', 'baseline')], env=dict(os.environ, VERIF_REPO=d), capture_output=True, text=True)
            if b.returncode != 0:
                return prop, 'BREAKS-BASELINE', b.stdout[-400:], 0
        env = dict(os.environ, VERIF_REPO=d, VERIF_EVIDENCE_DIR=os.path.join(d, '_evidence'), VERIF_SEED=seed)
        os.makedirs(os.path.join(d, '_evidence', 'replay'))
        t = time.time()
        p = subprocess.run([os.path.join(HERE, 'bin', 'check'), prop, '--tier', tier], env=env, capture_output=True, text=True)
        keys = [l.strip() for l in p.stdout.splitlines() if l.strip().startswith('key=')]
        verdict = {0: 'MISSED', 1: 'CAUGHT', 2: 'INCONCLUSIVE'}.get(p.returncode, f'rc{p.returncode}')
        return prop, verdict, '; '.join(k[:160] for k in keys[:3]) or p.stdout[-600:], time.time() - t
    finally:
        shutil.rmtree(d, ignore_errors=True)


def main():
    args = [a for a in sys.argv[1:] if not a.startswith('--')]
    tier = 'thorough' if '--thorough' in sys.argv else 'quick'
    diffs = sorted(glob.glob(os.path.join(HERE, 'selftest', 'mutants', '*.diff')))
    if args:
        diffs = [d for d in diffs if any(os.path.basename(d).startswith(a) for a in args)]
    rows = []
    for d in diffs:
        prop, verdict, info, wall = run_one(d, tier)
        rows.append((os.path.basename(d), verdict, round(wall, 1), info))
        print(f'{os.path.basename(d):40s} {verdict:12s} {wall:6.1f}s  {info[:200]}', flush=True)
    missed = [r for r in rows if r[1] != 'CAUGHT']
    print(f'{len(rows) - len(missed)}/{len(rows)} mutants caught')
    return 1 if missed else 0


if __name__ == '__main__':
    sys.exit(main())

#!/usr/bin/env python3
"""builds selftest/RESULTS.md from selftest/mutants_run*.log (output of run_mutants.py) and seeded/RESULTS.json"""
import glob, json, os, re
HERE = os.path.dirname(os.path.dirname(os.path.abspath(__file__)))
rows = {}
for lg in sorted(glob.glob(os.path.join(HERE, 'selftest', 'mutants_run*.log'))):
    for line in open(lg, errors='replace'):
        m = re.match(r'^(C\d+-\d+)\.diff\s+(\S+)\s+([\d.]+)s\s+(.*)$', line)
        if m:
            rows[m.group(1)] = (m.group(2), m.group(3), m.group(4).strip())
def firstkey(info):
    m = re.search(r'key=(\S+)', info)
    return m.group(1) if m else ''
def what(name):
    p = os.path.join(HERE, 'selftest', 'mutants', name + '.diff')
    if not os.path.exists(p):
        return ''
    minus = [l[1:].strip() for l in open(p, errors='replace') if l.startswith('-') and not l.startswith('---')]
    plus = [l[1:].strip() for l in open(p, errors='replace') if l.startswith('+') and not l.startswith('+++')]
    f = [l.split()[1][2:] for l in open(p, errors='replace') if l.startswith('+++ ')]
    return f"{f[0] if f else ''}: `{(minus[0] if minus else '')[:70]}` -> `{(plus[0] if plus else '(removed)')[:70]}`"
out = ['# Self-test results\n', '## 1. My own deliberate breaks (selftest/mutants/*.diff), quick tier, baseline kept green\n',
       f'{sum(1 for v in rows.values() if v[0] == "CAUGHT")}/{len(rows)} caught.  Each diff applies to the current /repo tree, keeps the 39-test baseline green '
       '(`run_mutants.py --baseline`) and is run with `VERIF_REPO=<scratch copy>`.\n', '| mutant | change (first hunk) | verdict | first mechanism key that fired |', '|---|---|---|---|']
def skey(k):
    a, b = k.split('-')
    return (a, int(b))
for k in sorted(rows, key=skey):
    v = rows[k]
    out.append(f'| {k} | {what(k)} | {v[0]} | `{firstkey(v[2])}` |')
rp = os.path.join(HERE, 'seeded', 'RESULTS.json')
if os.path.exists(rp):
    R = json.load(open(rp))
    out += ['', '## 2. Independently written breaks (seeded/<ID>-<A..K>/, six rounds of fresh sub-agents given only the property record and what had been tried before)\n',
            'Columns: demo on clean tree / demo with patch (exit codes), baseline with patch, verdict of `bin/check <ID> --tier quick` on the patched copy.\n',
            '| seeded | files | needs to manifest (author) | demo clean/patched | baseline | check | mechanism key(s) |', '|---|---|---|---|---|---|---|']
    for n in sorted(R, key=lambda x: (x.split('-')[0], x.split('-')[1])):
        r = R[n]
        meta = json.load(open(os.path.join(HERE, 'seeded', n, 'meta.json')))
        a = meta.get('claimed_by_author', {})
        last = r.get('thorough') or r.get('quick') or {}
        keys = '; '.join(re.sub(r' count=.*', '', k.replace('key=', '')) for k in last.get('keys', [])[:2])
        verdict = last.get('verdict')
        for k2, v2 in r.items():
            if k2.startswith('also_') and v2.get('verdict') == 'CAUGHT' and verdict != 'CAUGHT':
                verdict = f"{verdict}; CAUGHT by {k2[5:]}"
                keys = '; '.join(re.sub(r' count=.*', '', k.replace('key=', '')) for k in v2.get('keys', [])[:2])
        if meta.get('note') and verdict and verdict.startswith('MISSED'):
            verdict += ' (see note in meta.json: ' + meta['note'][:120] + '...)'
        out.append(f"| {n} | {', '.join(a.get('files', []))[:60]} | {str(a.get('needs_to_manifest', ''))[:260]} | {r.get('demo_on_clean')}/{r.get('demo_with_patch')} | "
                   f"{'ok' if r.get('baseline_passes') else 'BROKEN'} | {verdict} ({'thorough' if r.get('thorough') else 'quick'}) | `{keys[:200]}` |")
open(os.path.join(HERE, 'selftest', 'RESULTS.md'), 'w').write('\n'.join(out) + '\n')
print('written', len(rows), 'mutants')

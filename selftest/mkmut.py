#!/usr/bin/env python3
"""mkmut.py <name> <repo-relative file> <old> <new> [count]: writes selftest/mutants/<name>.diff replacing `old` by `new`
(exactly one occurrence unless count given) in the current /repo working tree file."""
import difflib, os, sys
HERE = os.path.dirname(os.path.dirname(os.path.abspath(__file__)))
name, rel, old, new = sys.argv[1:5]
src = open(os.path.join(os.environ.get('MUT_BASE', '/repo'), rel)).read()
n = src.count(old)
want = int(sys.argv[5]) if len(sys.argv) > 5 else 1
if n != want:
    sys.exit(f'{old!r} occurs {n} times in {rel}, expected {want}')
dst = src.replace(old, new)
diff = ''.join(difflib.unified_diff(src.splitlines(True), dst.splitlines(True), 'a/' + rel, 'b/' + rel))
out = os.path.join(HERE, 'selftest', 'mutants', name + '.diff')
mode = 'a' if os.environ.get('MUT_APPEND') else 'w'
open(out, mode).write(diff)
print('wrote', out)
